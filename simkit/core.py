"""simkit.core -- deterministic simulator core for pynenc.

One `Sim` object is one simulated execution: virtual clock, seeded PRNG
streams, baton-passing scheduler over real threads, event log, fault plan.

Two modes:
  * sequential ("engine A"): no scheduler; code runs on the caller's thread,
    `threading.Thread` objects created by pynenc (history writers) run inline
    at start() or are deferred until joined/flushed (knob `defer_threads`).
  * threaded ("engine B"): every simulated thread is a real thread that only
    runs while it holds the baton; every yield point asks the seeded policy
    who runs next.

Nothing here imports pynenc; shims.py binds it to pynenc's modules.
"""

from __future__ import annotations

import hashlib
import heapq
import random
import sys
import threading as _real_threading
import time as _real_time
from typing import Any, Callable

CURRENT: "Sim | None" = None  # the simulation that owns the process right now

_tls = _real_threading.local()  # .simthread -> SimThread of the running real thread


class SimCrash(BaseException):
    """The logical process this thread belongs to was killed (SIGKILL)."""


class SimAbort(BaseException):
    """The run is being torn down (budget exhausted / deadlock / end of run)."""


class HarnessError(Exception):
    """The simulator itself is broken (unsimulated thread, hang, ...)."""


def stream(seed: int, name: str) -> random.Random:
    h = hashlib.sha256(f"{seed}:{name}".encode()).digest()
    return random.Random(int.from_bytes(h[:8], "big"))


NEW, RUNNABLE, SLEEPING, BLOCKED, DONE = "new", "runnable", "sleeping", "blocked", "done"


class Actor:
    """A logical OS process."""

    def __init__(self, sim: "Sim", name: str, pid: int) -> None:
        self.sim = sim
        self.name = name
        self.pid = pid
        self.dead = False
        self.threads: list[SimThread] = []
        self.thread_counter = 0
        self.conns: list[Any] = []  # weak list of SimConnections (sqlseam)
        self.signal_handlers: dict[int, Callable] = {}
        self.pending_calls: list[Callable[[], None]] = []  # "signals" for main thread
        self.effect_count = 0  # number of effect boundaries passed (crash planning)

    def __repr__(self) -> str:
        return f"Actor({self.name})"


class SimThread:
    """Stand-in for threading.Thread (same constructor surface pynenc uses)."""

    def __init__(
        self,
        group: None = None,
        target: Callable | None = None,
        name: str | None = None,
        args: Any = (),
        kwargs: dict | None = None,
        *,
        daemon: bool | None = None,
        _sim: "Sim | None" = None,
        _actor: Actor | None = None,
    ) -> None:
        sim = _sim or CURRENT
        if sim is None:
            raise HarnessError("SimThread created without an active simulation")
        self.sim = sim
        self._target = target
        self._args = tuple(args)
        self._kwargs = kwargs or {}
        self.daemon = bool(daemon)
        creator = sim.current_thread()
        self.actor = _actor or (creator.actor if creator else sim.default_actor())
        self.actor.thread_counter += 1
        kind = "t"
        tname = getattr(target, "__name__", "") or ""
        if tname == "_add_histories":
            kind = "h"
        self.name = name or f"{self.actor.name}/{kind}{self.actor.thread_counter}"
        self.kind = kind
        self.state = NEW
        self.number = -1
        self.ident: int | None = None
        self.nyield = 0
        self.wake_at: float | None = None
        self.blocked_on: Any = None
        self.exc: BaseException | None = None
        self.result: Any = None
        self.reaper: SimThread | None = None
        self.priority = 0.0
        self.woken = False
        self._sem = _real_threading.Semaphore(0)
        self._real: _real_threading.Thread | None = None
        self.fail_start = False

    # --- threading.Thread API -------------------------------------------
    def start(self) -> None:
        sim = self.sim
        if self.state != NEW:
            raise RuntimeError("threads can only be started once")
        if sim.buggify_thread_start(self):
            raise RuntimeError("can't start new thread")
        sim.register_thread(self)
        if not sim.threaded:
            # sequential engine: run inline now, or later when flushed
            if sim.defer_threads and self.kind == "h":
                sim.deferred.append(self)
                self.state = RUNNABLE
            else:
                self._run_inline()
            return
        self.state = RUNNABLE
        self._real = _real_threading.Thread(
            target=self._bootstrap, name=f"sim:{self.name}", daemon=True
        )
        self._real.start()
        sim.log_event("thread-start", self.name)
        sim.yield_point("spawn", self.name)

    def _run_inline(self) -> None:
        prev = getattr(_tls, "simthread", None)
        try:
            if self._target:
                self.result = self._target(*self._args, **self._kwargs)
        except Exception as e:  # same as a real thread: the exception dies with it
            self.exc = e
        finally:
            _tls.simthread = prev
            self.state = DONE

    def _bootstrap(self) -> None:
        sim = self.sim
        _tls.simthread = self
        self._sem.acquire()  # wait for the baton
        try:
            if sim.aborting:
                raise SimAbort()
            if self.actor.dead:
                raise SimCrash()
            if sim.trace_lines:
                sys.settrace(sim._tracer)
            if sim.start_delay is not None:
                # a slow worker: the thread exists but gets the CPU only after a (virtual) while
                d_ = sim.start_delay(self)  # may block by itself (event) or return a number of seconds
                if d_ and d_ > 0:
                    sim.sleep(d_)
            if self._target:
                self.result = self._target(*self._args, **self._kwargs)
        except (SimCrash, SimAbort) as e:
            self.exc = e
        except BaseException as e:  # noqa: BLE001
            self.exc = e
            sim.log_event("thread-exc", (self.name, type(e).__name__))
            sim.thread_exceptions.append((self.name, e))
        finally:
            sys.settrace(None)
            sim._thread_finished(self)

    def join(self, timeout: float | None = None) -> None:
        sim = self.sim
        if self.state == NEW:
            raise RuntimeError("cannot join thread before it is started")
        if not sim.threaded:
            if self.state != DONE and self in sim.deferred:
                sim.deferred.remove(self)
                self._run_inline()
            return
        cur = sim.current_thread()
        if cur is self:
            raise RuntimeError("cannot join current thread")
        deadline = None if timeout is None else sim.now + timeout
        while self.state != DONE:
            if not sim.block(("join", self), deadline):
                return

    def is_alive(self) -> bool:
        sim = self.sim
        if sim.threaded:
            sim.yield_point("is_alive", self.name)
        return self.state not in (NEW, DONE)

    def setDaemon(self, d: bool) -> None:  # noqa: N802
        self.daemon = d

    def getName(self) -> str:  # noqa: N802
        return self.name

    def __repr__(self) -> str:
        return f"<SimThread {self.name} {self.state}>"


class SimLock:
    def __init__(self) -> None:
        self.owner: SimThread | None | str = None
        self.count = 0

    _reentrant = False

    def acquire(self, blocking: bool = True, timeout: float = -1) -> bool:
        sim = CURRENT
        if sim is None or not sim.threaded or sim.current_thread() is None:
            # sequential engine: never contended
            self.owner = "seq"
            self.count += 1
            return True
        me = sim.current_thread()
        sim.yield_point("lock-acquire", None)
        deadline = None if timeout is None or timeout < 0 else sim.now + timeout
        while True:
            if self.owner is None:
                self.owner = me
                self.count = 1
                return True
            if self._reentrant and self.owner is me:
                self.count += 1
                return True
            if not blocking:
                return False
            if not sim.block(("lock", self), deadline):
                return False

    def release(self) -> None:
        sim = CURRENT
        if self.owner is None:
            raise RuntimeError("release unlocked lock")
        self.count -= 1
        if self.count <= 0:
            self.owner = None
            self.count = 0
            if sim is not None and sim.threaded:
                sim.wake(("lock", self))

    def locked(self) -> bool:
        return self.owner is not None

    def __enter__(self) -> bool:
        return self.acquire()

    def __exit__(self, *a: Any) -> None:
        self.release()


class SimRLock(SimLock):
    _reentrant = True


class SimEvent:
    def __init__(self) -> None:
        self._flag = False

    def is_set(self) -> bool:
        return self._flag

    def set(self) -> None:
        self._flag = True
        sim = CURRENT
        if sim is not None and sim.threaded:
            sim.wake(("event", self))

    def clear(self) -> None:
        self._flag = False

    def wait(self, timeout: float | None = None) -> bool:
        sim = CURRENT
        if sim is None or not sim.threaded or sim.current_thread() is None:
            return self._flag
        deadline = None if timeout is None else sim.now + timeout
        while not self._flag:
            if not sim.block(("event", self), deadline):
                break
        return self._flag


class Sim:
    """One simulated execution."""

    def __init__(
        self,
        seed: int,
        *,
        threaded: bool = False,
        policy: str = "rand",
        policy_arg: float = 0.2,
        epoch: float | None = None,
        delta: float = 1e-4,
        delta_spin: float = 2e-3,
        max_steps: int = 200_000,
        max_time: float | None = None,
        trace_lines: bool = False,
        traced_files: set[str] | None = None,
        schedule: list | None = None,
        defer_threads: bool = False,
        wall_timeout: float = 60.0,
    ) -> None:
        self.seed = seed
        self.threaded = threaded
        self.rng_sched = stream(seed, "schedule")
        self.rng_fault = stream(seed, "faults")
        self.rng_work = stream(seed, "workload")
        self.rng_ids = stream(seed, "ids")
        self.rng_knobs = stream(seed, "knobs")
        if epoch is None:
            epoch = 1_700_000_000.0 + stream(seed, "epoch").randrange(0, 400_000_000)
        self.epoch = epoch
        self.now = float(epoch)
        self.delta = delta
        self.delta_spin = delta_spin
        self.max_steps = max_steps
        self.max_time = None if max_time is None else epoch + max_time
        self.trace_lines = trace_lines
        self.traced_files = traced_files or set()
        self.defer_threads = defer_threads
        self.deferred: list[SimThread] = []
        self.wall_timeout = wall_timeout
        self.policy = policy
        self.policy_arg = policy_arg
        self.scripted = None
        if schedule is not None:
            self.policy = "scripted"
            self.scripted = {(d[0], d[1]): d[2] for d in schedule}
        self.threads: list[SimThread] = []
        self.actors: dict[str, Actor] = {}
        self.steps = 0
        self.log: list[tuple] = []
        self.log_enabled = True
        self.deviations: list[list] = []
        self.switch_sites: list[tuple] = []
        self.aborting = False
        self.abort_reason: str | None = None
        self.thread_exceptions: list[tuple[str, BaseException]] = []
        self.uuid_counter = 0
        self._finished = _real_threading.Event()
        self._cur: SimThread | None = None
        self.fault_hook: Callable[[SimThread, str, Any], None] | None = None
        self.thread_start_failures: set[int] = set()
        self.thread_start_counter = 0
        self.stats: dict[str, int] = {}
        self.state_hashes: set[int] = set()
        self._pid_counter = 1000
        self.pct_change_points: set[int] = set()
        if self.policy == "pct":
            k = int(policy_arg)
            self.pct_change_points = {self.rng_sched.randrange(1, 400) for _ in range(k)}
        self.in_seam = 0
        self.started = False
        self._next_wake = float("inf")
        self.lazy_kinds: set[str] = set()  # thread kinds that run "arbitrarily late"
        self.frozen = False
        self.lazy_prefixes: tuple[str, ...] = ()  # thread-name prefixes that run "arbitrarily late" (a stalled worker)
        self.start_delay: Any = None  # fn(SimThread) -> virtual seconds a new thread waits before its first statement

    # ------------------------------------------------------------------ actors
    def actor(self, name: str) -> Actor:
        if name not in self.actors:
            self._pid_counter += 1
            self.actors[name] = Actor(self, name, self._pid_counter)
        return self.actors[name]

    def default_actor(self) -> Actor:
        return self.actor("main")

    def current_thread(self) -> SimThread | None:
        return getattr(_tls, "simthread", None)

    def current_actor(self) -> Actor:
        th = self.current_thread()
        if th is not None:
            return th.actor
        return getattr(self, "seq_actor", None) or self.default_actor()

    def register_thread(self, th: SimThread) -> None:
        th.number = len(self.threads)
        th.ident = 70000 + th.number
        self.threads.append(th)
        th.actor.threads.append(th)
        if self.policy == "pct":
            th.priority = self.rng_sched.random() + 1.0

    # ------------------------------------------------------------------ clock
    def time(self) -> float:
        """Every read is strictly later than the previous one (unless frozen:
        the clock-only checks probe exact instants)."""
        if self.frozen:
            return self.now
        self.now += 1e-6
        return self.now

    def clock_read(self) -> float:
        """time.time() as pynenc sees it: in the threaded engine a read is a
        yield point (pynenc's wait loops spin on the clock without sleeping)
        and costs `delta_spin` virtual seconds so that spinning makes time pass."""
        if self.threaded and self.current_thread() is not None and not self.in_seam:
            self.now += self.delta_spin
            self.yield_point("clock", None)
        return self.time()

    def spin_point(self) -> None:
        """A busy-wait iteration: yield and let `delta_spin` pass."""
        if self.threaded and self.current_thread() is not None and not self.in_seam:
            self.now += self.delta_spin
            self.yield_point("clock", None)

    def bump(self, n: str, k: int = 1) -> None:
        self.stats[n] = self.stats.get(n, 0) + k

    def advance(self, seconds: float) -> None:
        self.now += seconds

    def sleep(self, seconds: float) -> None:
        if seconds < 0:
            raise ValueError("sleep length must be non-negative")
        if not self.threaded or self.current_thread() is None:
            self.now += seconds
            return
        deadline = self.now + seconds
        th = self.current_thread()
        assert th is not None
        if self.policy == "pct":
            th.priority -= 0.01  # spinners sink
        while self.now < deadline:
            self.block(("sleep", th), deadline)

    # ------------------------------------------------------------------ log
    def log_event(self, kind: str, detail: Any = None) -> None:
        if not self.log_enabled:
            return
        th = self.current_thread()
        self.log.append((len(self.log), th.name if th else "-", kind, detail))

    def digest(self) -> str:
        h = hashlib.sha256()
        for ev in self.log:
            h.update(repr(ev).encode())
        h.update(repr(round(self.now - self.epoch, 6)).encode())
        return h.hexdigest()

    # ------------------------------------------------------------------ ids
    def uuid4(self) -> Any:
        import uuid as _uuid

        self.uuid_counter += 1
        hi = self.rng_ids.getrandbits(64)
        b = hi.to_bytes(8, "big") + self.uuid_counter.to_bytes(8, "big")
        return _uuid.UUID(bytes=b, version=4)

    # ------------------------------------------------------------------ faults
    def buggify_thread_start(self, th: SimThread) -> bool:
        if th.kind != "t":
            return False
        self.thread_start_counter += 1
        if self.thread_start_counter in self.thread_start_failures:
            self.bump("fault.thread_start_failure")
            self.log_event("fault-thread-start", th.name)
            return True
        return False

    def crash_actor(self, actor: Actor, why: str = "") -> None:
        """SIGKILL a logical process: called from any simulated thread."""
        if actor.dead:
            return
        actor.dead = True
        self.bump("fault.crash")
        self.log_event("crash", (actor.name, why))
        cur = self.current_thread()
        if self.threaded:
            for t in list(actor.threads):
                if t is cur or t.state in (DONE, NEW):
                    continue
                self._reap(t)
        for r in list(actor.conns):
            c = r()
            if c is None:
                continue
            try:
                c._crash_close()
            except Exception:  # noqa: BLE001
                pass
        self.wake_db_waiters()
        if cur is not None and cur.actor is actor:
            raise SimCrash()

    def _reap(self, t: SimThread) -> None:
        cur = self.current_thread()
        assert cur is not None
        t.reaper = cur
        t.state = RUNNABLE
        t.blocked_on = None
        self._cur = t
        t._sem.release()
        cur._sem.acquire()
        self._cur = cur

    def check_alive(self) -> None:
        """Called by every seam: a dead process cannot have effects."""
        th = self.current_thread()
        if th is None:
            return
        if self.aborting:
            raise SimAbort()
        if th.actor.dead:
            raise SimCrash()

    # ------------------------------------------------------------------ scheduling
    def yield_point(self, kind: str, detail: Any = None) -> None:
        if not self.threaded:
            self.steps += 1
            if not self.frozen:
                self.now += self.delta
            return
        th = self.current_thread()
        if th is None:
            if self.started and not self._finished.is_set():
                raise HarnessError(f"yield point {kind} reached by an unsimulated thread")
            # set-up / tear-down phase on the controller thread
            self.steps += 1
            if not self.frozen:
                self.now += self.delta
            return
        if self.aborting:
            raise SimAbort()
        if th.actor.dead:
            raise SimCrash()
        if self.in_seam:
            return
        th.nyield += 1
        self.steps += 1
        self.now += self.delta
        if self.fault_hook is not None:
            self.fault_hook(th, kind, detail)
            if th.actor.dead:
                raise SimCrash()
        if self.steps > self.max_steps:
            self._abort("step-budget")
        if self.max_time is not None and self.now > self.max_time:
            self._abort("time-budget")
        if th.actor.pending_calls and th is th.actor.threads[0]:
            calls, th.actor.pending_calls = th.actor.pending_calls, []
            for c in calls:
                c()
        if self.now >= self._next_wake:
            self._wake_timed()
        nxt = self._choose(th, kind, detail)
        if nxt is not th:
            self._switch(th, nxt)
            if self.aborting:
                raise SimAbort()
            if th.actor.dead:
                raise SimCrash()

    def _wake_timed(self) -> None:
        nxt = float("inf")
        for t in self.threads:
            if t.wake_at is not None and t.state in (SLEEPING, BLOCKED):
                if t.wake_at <= self.now:
                    t.state = RUNNABLE
                    t.woken = False
                elif t.wake_at < nxt:
                    nxt = t.wake_at
        self._next_wake = nxt

    def _runnable(self) -> list[SimThread]:
        return [t for t in self.threads if t.state == RUNNABLE]

    def _choose(self, cur: SimThread, kind: str, detail: Any) -> SimThread:
        """Policy decision; cur may be non-runnable (it is blocking).

        `default` is what a replay does when no deviation is recorded for this
        point (continue, else the lowest-numbered runnable thread); whatever a
        policy picks instead is recorded as a deviation, so any run can be
        replayed -- and shrunk -- as default + deviations."""
        everyone = self._runnable()
        if not everyone:
            return cur
        default = cur if cur.state == RUNNABLE else everyone[0]
        if len(everyone) == 1 and default is everyone[0]:
            return default
        runnable = everyone
        p = self.policy
        if (self.lazy_kinds or self.lazy_prefixes) and p != "scripted":
            eager = [t for t in everyone if t.kind not in self.lazy_kinds and not (self.lazy_prefixes and t.name.startswith(self.lazy_prefixes))]
            if eager and len(eager) < len(everyone) and self.rng_sched.random() < 0.97:
                if cur.state == RUNNABLE and cur not in eager:
                    eager = eager + [cur]
                runnable = eager
        pref = cur if (cur.state == RUNNABLE and cur in runnable) else runnable[0]
        chosen = pref
        if p == "scripted":
            assert self.scripted is not None
            chosen = default
            tgt = self.scripted.get((cur.name, cur.nyield))
            if tgt is not None:
                for t in everyone:
                    if t.name == tgt:
                        chosen = t
                        break
        elif p == "rand":
            if cur.state != RUNNABLE or self.rng_sched.random() < self.policy_arg:
                chosen = runnable[self.rng_sched.randrange(len(runnable))]
        elif p == "rr":
            q = max(1, int(self.policy_arg))
            if cur.state != RUNNABLE or cur.nyield % q == 0:
                after = [t for t in runnable if t.number > cur.number]
                chosen = after[0] if after else runnable[0]
        elif p == "pct":
            if self.steps in self.pct_change_points:
                cur.priority = self.rng_sched.random() * 0.5
            if kind in ("sleep", "clock"):
                cur.priority -= 0.01
            chosen = max(runnable, key=lambda t: (t.priority, -t.number))
        elif p == "seq":
            chosen = pref
        else:
            raise HarnessError(f"unknown policy {p}")
        if chosen is not default:
            self.deviations.append([cur.name, cur.nyield, chosen.name])
        if chosen is not cur:
            self.switch_sites.append((cur.name, kind, _short(detail), chosen.name))
        return chosen

    def _switch(self, cur: SimThread, nxt: SimThread) -> None:
        self._cur = nxt
        nxt._sem.release()
        cur._sem.acquire()
        self._cur = cur

    def block(self, on: Any, deadline: float | None) -> bool:
        """Block the current thread until wake(on) or the deadline.

        Returns True if woken by wake(), False if the deadline passed.
        Spurious wake-ups are allowed (callers loop on their condition).
        """
        th = self.current_thread()
        assert th is not None
        if self.aborting:
            raise SimAbort()
        if th.actor.dead:
            raise SimCrash()
        if deadline is not None and self.now >= deadline:
            return False
        th.nyield += 1
        self.steps += 1
        if self.steps > self.max_steps:
            self._abort("step-budget")
        th.state = SLEEPING if on[0] == "sleep" else BLOCKED
        th.blocked_on = on
        th.wake_at = deadline
        th.woken = False
        if deadline is not None and deadline < self._next_wake:
            self._next_wake = deadline
        if self.now >= self._next_wake:
            self._wake_timed()
            th.state = SLEEPING if on[0] == "sleep" else BLOCKED
        nxt = self._next_after_block(th)
        if nxt is not th:
            self._switch(th, nxt)
        th.blocked_on = None
        th.wake_at = None
        th.state = RUNNABLE
        if self.aborting:
            raise SimAbort()
        if th.actor.dead:
            raise SimCrash()
        return th.woken

    def _next_after_block(self, th: SimThread) -> SimThread:
        """th is blocking or done: who runs next?  Returns th itself only when
        th is DONE and nothing else is alive (the run is over) or when th was
        made runnable again by a clock jump."""
        while True:
            if self._runnable():
                return self._choose(th, "block", None)
            # nobody can run: jump the clock to the earliest timed wake-up
            timed = [
                t
                for t in self.threads
                if t.state in (SLEEPING, BLOCKED) and t.wake_at is not None
            ]
            if not timed:
                alive = [t for t in self.threads if t.state not in (DONE, NEW)]
                if not alive:
                    return th
                self._abort("deadlock")
            t0 = min(timed, key=lambda t: (t.wake_at, t.number))
            assert t0.wake_at is not None
            if self.max_time is not None and t0.wake_at > self.max_time:
                self.now = self.max_time + 1e-6
                self._abort("time-budget")
            if t0.wake_at > self.now:
                self.now = t0.wake_at
            for t in timed:
                if t.wake_at is not None and t.wake_at <= self.now:
                    t.state = RUNNABLE
                    t.woken = False

    def wake(self, on: Any) -> None:
        for t in self.threads:
            if t.state == BLOCKED and t.blocked_on is not None and _same(t.blocked_on, on):
                t.state = RUNNABLE
                t.woken = True

    def wake_db_waiters(self) -> None:
        for t in self.threads:
            if t.state == BLOCKED and t.blocked_on is not None and t.blocked_on[0] == "db":
                t.state = RUNNABLE
                t.woken = True

    def _thread_finished(self, th: SimThread) -> None:
        th.state = DONE
        th.nyield += 1  # the hand-over at thread end is a decision point of its own
        self.log_event("thread-end", th.name)
        for t in self.threads:
            if t.state == BLOCKED and t.blocked_on is not None and t.blocked_on[0] == "join" and t.blocked_on[1] is th:
                t.state = RUNNABLE
                t.woken = True
        if th.reaper is not None:
            r = th.reaper
            th.reaper = None
            self._cur = r
            r._sem.release()
            return
        if self.aborting:
            self._abort_next()
            return
        try:
            nxt = self._next_after_block(th)
        except SimAbort:
            self._abort_next()
            return
        if nxt is th:
            self._finished.set()
            return
        self._cur = nxt
        nxt._sem.release()

    def _abort(self, reason: str) -> None:
        if not self.aborting:
            self.aborting = True
            self.abort_reason = reason
            self.log_event("abort", reason)
        raise SimAbort()

    def _abort_next(self) -> None:
        """Hand the baton to any thread that still has to unwind."""
        for t in self.threads:
            if t.state not in (DONE, NEW) and t is not self.current_thread():
                t.state = RUNNABLE
                self._cur = t
                t._sem.release()
                return
        self._finished.set()

    def stop_run(self, reason: str = "done") -> None:
        """Called by a simulated thread (e.g. the driver) to end the run."""
        self._abort(reason)

    # ------------------------------------------------------------------ tracing
    def _tracer(self, frame: Any, event: str, arg: Any) -> Any:
        if frame.f_code.co_filename in self.traced_files:
            return self._line_tracer
        return None

    def _line_tracer(self, frame: Any, event: str, arg: Any) -> Any:
        if event == "line" and not self.in_seam:
            code = frame.f_code
            self.yield_point("line", (code.co_name, frame.f_lineno))
        return self._line_tracer

    # ------------------------------------------------------------------ driver
    def run(self, mains: list[tuple[str, str, Callable[[], Any]]]) -> None:
        """Run the simulation. mains: (actor name, thread name, fn)."""
        global CURRENT
        if not self.threaded:
            raise HarnessError("run() needs threaded=True")
        if CURRENT is not None and CURRENT is not self:
            raise HarnessError("another simulation is active")
        CURRENT = self
        ths = []
        for actor_name, tname, fn in mains:
            a = self.actor(actor_name)
            t = SimThread(target=fn, name=f"{actor_name}/{tname}", _sim=self, _actor=a)
            self.register_thread(t)
            t.state = RUNNABLE
            t._real = _real_threading.Thread(target=t._bootstrap, name=f"sim:{t.name}", daemon=True)
            t._real.start()
            ths.append(t)
        first = ths[0]
        if self.policy in ("rand", "pct") and len(ths) > 1:
            first = ths[self.rng_sched.randrange(len(ths))]
            if first is not ths[0]:
                self.deviations.append(["-", 0, first.name])
        elif self.policy == "scripted" and self.scripted:
            tgt = self.scripted.get(("-", 0))
            for t in ths:
                if t.name == tgt:
                    first = t
        self._cur = first
        self.started = True
        first._sem.release()
        ok = self._finished.wait(self.wall_timeout)
        if not ok:
            import faulthandler

            faulthandler.dump_traceback(file=sys.stderr)
            raise HarnessError(
                f"wall-clock watchdog: simulation did not finish in {self.wall_timeout}s "
                f"(steps={self.steps}, cur={self._cur})"
            )
        # make sure every real thread is gone
        for t in self.threads:
            if t._real is not None:
                t._real.join(5.0)
                if t._real.is_alive():
                    raise HarnessError(f"thread {t.name} did not exit")
        # a thread torn down inside a commit leaves its connection in a transaction and the
        # traceback keeps it alive: roll back and close whatever the run left open (pynenc
        # opens a fresh connection per operation, nothing is cached)
        for t in self.threads:
            if isinstance(t.exc, (SimAbort, SimCrash)):
                t.exc = type(t.exc)()
        for a in self.actors.values():
            for r in list(a.conns):
                c = r()
                if c is not None:
                    try:
                        c._crash_close()
                    except Exception:  # noqa: BLE001
                        pass
            a.conns = []

    def flush_deferred(self) -> None:
        """Sequential engine: run the deferred background threads now."""
        while self.deferred:
            t = self.deferred.pop(0)
            t._run_inline()

    def close(self) -> None:
        global CURRENT
        if CURRENT is self:
            CURRENT = None


def _same(a: Any, b: Any) -> bool:
    return a[0] == b[0] and a[1] is b[1]


def _short(detail: Any) -> Any:
    if detail is None or isinstance(detail, (int, str)):
        return detail
    if isinstance(detail, tuple):
        return tuple(_short(x) for x in detail[:3])
    return str(detail)[:40]


def activate(sim: Sim) -> None:
    global CURRENT
    if CURRENT is not None and CURRENT is not sim:
        raise HarnessError("another simulation is active")
    CURRENT = sim


def deactivate() -> None:
    global CURRENT
    CURRENT = None
