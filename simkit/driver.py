"""simkit.driver -- runs a check: seeds -> chunks -> worker processes -> verdict.

A check module (checks/cXX.py) exposes:

    PROPERTY = "C01"
    LEVEL    = "exploration" | "fault_enumeration"
    RULE     = "how cases are generated and what makes one non-trivial"
    ASSUMPTIONS = [...]
    REAL / STUBBED = [...]                      component lists for the evidence
    def plan(tier) -> list[{"stratum": str, "runs": int, "params": {...}}]
    def run(seed, params, replay=None) -> dict  one simulated run (see RunResult)
    MINIMIZE = "schedule" | "ops" | None

RunResult keys (all optional except violations):
    violations : [{"signature": str, "message": str}]
    stats      : {counter: int}            (fault kinds fired, probes, ...)
    steps, sim_time : numbers
    sched_hash : str   hash of the interleaving / operation sequence
    states     : [int] abstract-state hashes reached
    nontrivial : bool
    sample     : any JSON-able description of the case
    schedule   : list of deviations (engine B)   -> replay
    ops        : list of operations (engine A)   -> replay
    inconclusive: bool
    digest     : str event-log digest

Exit codes: 0 = held (known findings only), 1 = unlisted violation,
2 = harness error (never reported as a pass and never as a violation).
"""

from __future__ import annotations

import fnmatch
import hashlib
import importlib
import json
import os
import subprocess
import sys
import time
from typing import Any

VERIF = os.path.dirname(os.path.dirname(os.path.abspath(__file__)))
OUT = os.environ.get("VERIF_OUT", VERIF)  # evidence/ and replays/ go here (the sensitivity self-test redirects them)
PY = "/venv/bin/python"
CHUNK = 32
MAX_PROCS = int(os.environ.get("VERIF_PROCS", "16"))


def hashseed_for(chunk_key: int) -> int:
    return (chunk_key * 2654435761 + 12345) % 4294967291


def load_check(prop: str) -> Any:
    return importlib.import_module(f"checks.{prop.lower()}")


def load_known() -> list[dict]:
    p = os.path.join(VERIF, "known_findings.json")
    if not os.path.exists(p):
        return []
    with open(p) as f:
        return json.load(f)


def match_known(known: list[dict], prop: str, signature: str) -> dict | None:
    for k in known:
        if k.get("property") == prop and k.get("status") == "known":
            if fnmatch.fnmatchcase(signature, k["signature"]):
                return k
    return None


def child_env(hashseed: int) -> dict[str, str]:
    env = {k: v for k, v in os.environ.items() if not k.startswith("PYNENC")}
    env["PYTHONHASHSEED"] = str(hashseed)
    env["PYTHONPATH"] = f"{os.environ.get('VERIF_REPO', '/repo')}:{VERIF}"
    env["PYTHONDONTWRITEBYTECODE"] = "1"
    env["PYTHONWARNINGS"] = "ignore"
    env["PYNENC_VERIF_SIM"] = "1"
    return env


# ----------------------------------------------------------------------------- worker
def worker_main(argv: list[str]) -> int:
    """python -m simkit.driver worker <prop> <jobfile> <outfile>"""
    import faulthandler
    import traceback

    prop, jobfile, outfile = argv
    with open(jobfile) as f:
        job = json.load(f)
    faulthandler.enable()
    faulthandler.dump_traceback_later(job.get("timeout", 600), exit=True)
    sys.path.insert(0, VERIF)
    from simkit import apps, shims

    apps.scrub_env()
    shims.install()
    shims.assert_no_real_threading()
    mod = load_check(prop)
    if hasattr(mod, "warmup"):
        try:
            mod.warmup()
        except Exception as e:  # noqa: BLE001  a broken tree may already fail here; the runs below report it properly
            print(f"warm-up raised {type(e).__name__}: {e}", file=sys.stderr)
    rc = 0
    with open(outfile, "w") as out:
        for item in job["items"]:
            t0 = time.time()
            try:
                res = mod.run(item["seed"], item["params"], replay=item.get("replay"))
                res.setdefault("violations", [])
            except Exception as e:  # noqa: BLE001  harness error, not a violation
                res = {
                    "harness_error": f"{type(e).__name__}: {e}",
                    "traceback": traceback.format_exc()[-3000:],
                    "violations": [],
                }
                rc = 2
            res["seed"] = item["seed"]
            res["stratum"] = item["stratum"]
            res["wall"] = round(time.time() - t0, 4)
            out.write(json.dumps(res, default=str) + "\n")
            out.flush()
            if "harness_error" in res and "watchdog" in res["harness_error"]:
                break  # the process is poisoned (stuck threads)
    apps.cleanup()
    return rc


# ----------------------------------------------------------------------------- pool
def run_items(prop: str, items: list[dict], workdir: str, deadline: float | None, per_chunk_timeout: int = 900) -> tuple[list[dict], list[str], int]:
    """Run items in chunks across processes. Returns (results, errors, skipped)."""
    chunks: list[list[dict]] = []
    by_stratum: dict[str, list[dict]] = {}
    for it in items:
        by_stratum.setdefault(it["stratum"], []).append(it)
    per: list[list[list[dict]]] = []
    for _, lst in by_stratum.items():
        size = lst[0].get("chunk", CHUNK)
        per.append([lst[i : i + size] for i in range(0, len(lst), size)])
    # interleave the strata (proportionally), so that a wall-clock cap truncates every stratum, not the last ones
    pos = [0] * len(per)
    total = sum(len(x) for x in per)
    while len(chunks) < total:
        j = min((k for k in range(len(per)) if pos[k] < len(per[k])), key=lambda k: (pos[k] / len(per[k]), k))
        chunks.append(per[j][pos[j]])
        pos[j] += 1
    results: list[dict] = []
    errors: list[str] = []
    running: list[tuple[subprocess.Popen, str, str, float, int]] = []
    pending = list(enumerate(chunks))
    skipped = 0
    os.makedirs(workdir, exist_ok=True)

    def reap(block: bool) -> None:
        nonlocal running
        while True:
            still = []
            for p, outfile, errfile, started, n in running:
                rc = p.poll()
                if rc is None and time.time() - started > per_chunk_timeout:
                    p.kill()
                    p.wait()
                    rc = -9
                    errors.append(f"chunk timed out after {per_chunk_timeout}s ({outfile})")
                if rc is None:
                    still.append((p, outfile, errfile, started, n))
                    continue
                got = 0
                if os.path.exists(outfile):
                    with open(outfile) as f:
                        for line in f:
                            line = line.strip()
                            if line:
                                try:
                                    results.append(json.loads(line))
                                    got += 1
                                except json.JSONDecodeError:
                                    errors.append(f"bad result line in {outfile}")
                if rc not in (0, 2) or got < n:
                    tail = ""
                    try:
                        with open(errfile) as f:
                            tail = f.read()[-1500:]
                    except OSError:
                        pass
                    errors.append(f"worker exit {rc}, {got}/{n} results: {tail}")
                for r in results[-got:] if got else []:
                    if "harness_error" in r:
                        errors.append(f"seed {r['seed']} [{r['stratum']}]: {r['harness_error']}\n{r.get('traceback','')}")
            running = still
            if not block or not running:
                return
            time.sleep(0.02)

    while pending:
        if deadline is not None and time.time() > deadline:
            skipped = sum(len(c) for _, c in pending)
            break
        if len(running) >= MAX_PROCS:
            reap(False)
            if len(running) >= MAX_PROCS:
                time.sleep(0.02)
                continue
        idx, chunk = pending.pop(0)
        key = chunk[0]["seed"] // CHUNK
        hs = chunk[0].get("hashseed")
        if hs is None:
            hs = hashseed_for(key)
        for it in chunk:
            it["hashseed"] = hs
        jobfile = os.path.join(workdir, f"job{idx}.json")
        outfile = os.path.join(workdir, f"out{idx}.jsonl")
        errfile = os.path.join(workdir, f"err{idx}.txt")
        with open(jobfile, "w") as f:
            json.dump({"items": chunk, "timeout": per_chunk_timeout - 5}, f)
        with open(errfile, "w") as ef:
            p = subprocess.Popen(
                [PY, "-m", "simkit.driver", "worker", prop, jobfile, outfile],
                cwd=VERIF,
                env=child_env(hs),
                stdout=ef,
                stderr=ef,
            )
        running.append((p, outfile, errfile, time.time(), len(chunk)))
    reap(True)
    hs_by_seed = {(it["stratum"], it["seed"]): it.get("hashseed") for it in items}
    for r in results:
        r["hashseed"] = hs_by_seed.get((r.get("stratum"), r.get("seed")))
    return results, errors, skipped


# ----------------------------------------------------------------------------- minimise
def ddmin(items: list, test: Any, budget: list[int]) -> list:
    """Classic delta debugging; `test(candidate)` is True if it still fails."""
    n = 2
    cur = list(items)
    while len(cur) >= 2 and budget[0] > 0:
        size = max(1, len(cur) // n)
        subsets = [cur[i : i + size] for i in range(0, len(cur), size)]
        reduced = False
        for i in range(len(subsets)):
            if budget[0] <= 0:
                break
            comp = [x for j, s in enumerate(subsets) if j != i for x in s]
            budget[0] -= 1
            if test(comp):
                cur = comp
                n = max(n - 1, 2)
                reduced = True
                break
        if not reduced:
            if n >= len(cur):
                break
            n = min(len(cur), n * 2)
    if len(cur) == 1 and budget[0] > 0:
        budget[0] -= 1
        if test([]):
            cur = []
    return cur


def minimise(mod: Any, rec: dict, budget_runs: int | None = None) -> dict:
    """In-process minimisation (runs in a dedicated worker via `check minimise`)."""
    kind = getattr(mod, "MINIMIZE", None)
    key = {"schedule": "schedule", "ops": "ops"}.get(kind or "")
    if key is None or rec.get(key) is None:
        return rec
    sig = rec["signature"]
    original = rec[key]
    if budget_runs is None:
        budget_runs = int(getattr(mod, "MINIMIZE_BUDGET", 120))
    budget = [budget_runs]

    def test(candidate: list) -> bool:
        try:
            res = mod.run(rec["seed"], rec["params"], replay={key: candidate, **{k: v for k, v in rec.items() if k in ("ops", "schedule") and k != key}})
        except Exception:  # noqa: BLE001
            return False
        return any(v["signature"] == sig for v in res.get("violations", []))

    # the recorded case must fail when replayed from its own record
    budget[0] -= 1
    if not test(list(original)):
        rec["minimised"] = {"note": "record did not reproduce in-process; kept as is"}
        return rec
    small = ddmin(list(original), test, budget)
    rec = dict(rec)
    rec[key] = small
    rec["minimised"] = {f"from_{key}": len(original), f"to_{key}": len(small), "replays_used": budget_runs - budget[0]}
    # refresh message / digest from the minimised run
    res = mod.run(rec["seed"], rec["params"], replay={k: rec[k] for k in ("ops", "schedule") if rec.get(k) is not None})
    for v in res.get("violations", []):
        if v["signature"] == sig:
            rec["message"] = v["message"]
    rec["digest"] = res.get("digest")
    if res.get("sample") is not None:
        rec["sample"] = res["sample"]
    return rec


def minimise_main(argv: list[str]) -> int:
    prop, infile, outfile = argv
    sys.path.insert(0, VERIF)
    from simkit import apps, shims

    apps.scrub_env()
    shims.install()
    mod = load_check(prop)
    if hasattr(mod, "warmup"):
        mod.warmup()
    with open(infile) as f:
        rec = json.load(f)
    rec = minimise(mod, rec)
    with open(outfile, "w") as f:
        json.dump(rec, f, indent=1, default=str)
    apps.cleanup()
    return 0


# ----------------------------------------------------------------------------- replay
def replay_main(path: str) -> int:
    """./check replay <file>: fresh interpreter, recorded hash seed."""
    with open(path) as f:
        rec = json.load(f)
    prop = rec["property"]
    want_hs = str(rec.get("hashseed", 0))
    if os.environ.get("PYTHONHASHSEED") != want_hs or os.environ.get("VERIF_REPLAY_CHILD") != "1":
        env = child_env(int(want_hs))
        env["VERIF_REPLAY_CHILD"] = "1"
        return subprocess.call([PY, "-m", "simkit.driver", "replay", path], cwd=VERIF, env=env)
    sys.path.insert(0, VERIF)
    from simkit import apps, shims

    apps.scrub_env()
    shims.install()
    mod = load_check(prop)
    if hasattr(mod, "warmup"):
        mod.warmup()
    replay = {k: rec[k] for k in ("ops", "schedule") if rec.get(k) is not None}
    res = mod.run(rec["seed"], rec["params"], replay=replay or None)
    apps.cleanup()
    sigs = [v["signature"] for v in res.get("violations", [])]
    ok_digest = rec.get("digest") is None or res.get("digest") == rec.get("digest")
    if rec["signature"] in sigs:
        for v in res["violations"]:
            if v["signature"] == rec["signature"]:
                print(f"reproduced: {v['signature']}\n  {v['message']}")
        print(f"digest {'matches' if ok_digest else 'DIFFERS'} ({res.get('digest')})")
        known = match_known(load_known(), prop, rec["signature"])
        if known:
            print(f"KNOWN-FINDING: property={prop} {known.get('what', rec['signature'])}")
            return 0
        print(f"VIOLATION property={prop} replay={path}")
        return 1
    print(f"not reproduced: wanted {rec['signature']}, got {sigs}")
    return 3


# ----------------------------------------------------------------------------- main check
def run_check(prop: str, tier: str, base_seed: int) -> int:
    t_start = time.time()
    sys.path.insert(0, VERIF)
    mod = load_check(prop)
    plan = mod.plan(tier)
    wall_cap = getattr(mod, "WALL_CAP", {"quick": 150, "thorough": 1500})[tier]
    deadline = t_start + wall_cap
    items: list[dict] = []
    for si, st in enumerate(plan):
        for i in range(st["runs"]):
            seed = base_seed * (1 << 20) + si * (1 << 16) + i
            it = {"stratum": st["stratum"], "seed": seed, "params": st["params"]}
            if "chunk" in st:
                it["chunk"] = st["chunk"]
            items.append(it)
    base = "/dev/shm" if os.path.isdir("/dev/shm") and os.access("/dev/shm", os.W_OK) else os.path.join(VERIF, ".work")
    workdir = os.path.join(base, f"pynenc-verif-drv-{os.getpid()}")
    os.makedirs(workdir, exist_ok=True)
    try:
        results, errors, skipped = run_items(prop, items, workdir, deadline, per_chunk_timeout=900 if tier == "quick" else 2700)
        rc = finish(prop, tier, base_seed, mod, plan, results, errors, skipped, workdir, t_start)
    finally:
        import shutil

        shutil.rmtree(workdir, ignore_errors=True)
    return rc


def finish(prop: str, tier: str, base_seed: int, mod: Any, plan: list[dict], results: list[dict], errors: list[str], skipped: int, workdir: str, t_start: float) -> int:
    known = load_known()
    # group violations by signature
    by_sig: dict[str, list[dict]] = {}
    for r in results:
        for v in r.get("violations", []):
            by_sig.setdefault(v["signature"], []).append({"res": r, "v": v})
    unlisted: list[tuple[str, str]] = []
    known_seen: dict[str, int] = {}
    os.makedirs(os.path.join(OUT, "replays", prop), exist_ok=True)
    for sig in sorted(by_sig):
        hits = by_sig[sig]
        k = match_known(known, prop, sig)
        if k is not None:
            known_seen[k.get("what", sig)] = known_seen.get(k.get("what", sig), 0) + len(hits)
            continue
        # choose the smallest-looking record
        hits.sort(key=lambda h: (len(h["res"].get("ops") or []) + len(h["res"].get("schedule") or []), h["res"]["seed"]))
        h = hits[0]
        r = h["res"]
        st = next(s for s in plan if s["stratum"] == r["stratum"])
        rec = {
            "format": 1,
            "property": prop,
            "signature": sig,
            "message": h["v"]["message"],
            "seed": r["seed"],
            "hashseed": r.get("hashseed"),
            "stratum": r["stratum"],
            "params": st["params"],
            "ops": r.get("ops"),
            "schedule": r.get("schedule"),
            "digest": r.get("digest"),
            "sample": r.get("sample"),
            "occurrences_in_batch": len(hits),
        }
        sid = hashlib.sha256(sig.encode()).hexdigest()[:10]
        path = os.path.join(OUT, "replays", prop, f"{sid}.json")
        tmp_in = os.path.join(workdir, f"min-{sid}-in.json")
        tmp_out = os.path.join(workdir, f"min-{sid}-out.json")
        with open(tmp_in, "w") as f:
            json.dump(rec, f, default=str)
        try:
            subprocess.run([PY, "-m", "simkit.driver", "minimise", prop, tmp_in, tmp_out], cwd=VERIF, env=child_env(int(rec["hashseed"] or 0)), timeout=600, capture_output=True)
            with open(tmp_out) as f:
                rec = json.load(f)
        except Exception as e:  # noqa: BLE001
            rec["minimised"] = {"note": f"minimiser failed: {e}"}
        with open(path, "w") as f:
            json.dump(rec, f, indent=1, default=str)
        # verify in a fresh interpreter
        env = child_env(int(rec["hashseed"] or 0))
        env["VERIF_REPLAY_CHILD"] = "1"
        vr = subprocess.run([PY, "-m", "simkit.driver", "replay", path], cwd=VERIF, env=env, capture_output=True, text=True, timeout=600)
        rec["verified_in_fresh_interpreter"] = vr.returncode == 1
        with open(path, "w") as f:
            json.dump(rec, f, indent=1, default=str)
        if vr.returncode != 1:
            errors.append(f"violation {sig} did not replay from {path} (rc={vr.returncode}): {vr.stdout[-500:]} {vr.stderr[-500:]}")
        else:
            unlisted.append((sig, path))
    wall = time.time() - t_start
    write_evidence(prop, tier, base_seed, mod, plan, results, errors, skipped, known_seen, unlisted, wall)
    for what, n in sorted(known_seen.items()):
        print(f"KNOWN-FINDING: property={prop} {what} (seen {n}x)")
    for sig, path in unlisted:
        print(f"  {sig}")
        print(f"VIOLATION property={prop} replay={path}")
    n_inc = sum(1 for r in results if r.get("inconclusive"))
    print(f"{prop} {tier}: runs={len(results)} skipped={skipped} inconclusive={n_inc} known={sum(known_seen.values())} unlisted={len(unlisted)} errors={len(errors)} wall={wall:.1f}s")
    if errors:
        for e in errors[:10]:
            print("HARNESS-ERROR:", e[:2000], file=sys.stderr)
    if unlisted:
        # a violation that replayed in a fresh interpreter stands even if other runs had harness errors
        return 1
    if errors:
        return 2
    if not results:
        print("HARNESS-ERROR: no runs executed", file=sys.stderr)
        return 2
    return 0


def write_evidence(prop: str, tier: str, base_seed: int, mod: Any, plan: list[dict], results: list[dict], errors: list[str], skipped: int, known_seen: dict, unlisted: list, wall: float) -> None:
    stats: dict[str, int] = {}
    per_stratum: dict[str, dict[str, Any]] = {}
    sched: set[str] = set()
    nontrivial: set[str] = set()
    states: set[int] = set()
    steps = 0
    sim_time = 0.0
    samples: list[Any] = []
    for r in results:
        for k, v in (r.get("stats") or {}).items():
            if isinstance(v, (int, float)):
                stats[k] = stats.get(k, 0) + v
        ps = per_stratum.setdefault(r["stratum"], {"runs": 0, "violating_runs": 0, "inconclusive": 0, "nontrivial": 0})
        ps["runs"] += 1
        if r.get("violations"):
            ps["violating_runs"] += 1
        if r.get("inconclusive"):
            ps["inconclusive"] += 1
        h = r.get("sched_hash")
        if h is not None:
            sched.add(f"{r['stratum']}:{h}")
            if r.get("nontrivial"):
                nontrivial.add(f"{r['stratum']}:{h}")
                ps["nontrivial"] += 1
        for s in r.get("states") or []:
            states.add(s)
        steps += int(r.get("steps") or 0)
        sim_time += float(r.get("sim_time") or 0.0)
    seen_strata: set[str] = set()
    for r in results:
        if r.get("sample") is not None and r["stratum"] not in seen_strata and len(samples) < 8:
            seen_strata.add(r["stratum"])
            samples.append({"stratum": r["stratum"], "seed": r["seed"], "case": r["sample"]})
    faults = {k[6:]: v for k, v in stats.items() if k.startswith("fault.")}
    probes = {k[6:]: v for k, v in stats.items() if k.startswith("probe.")}
    other = {k: v for k, v in stats.items() if not k.startswith(("fault.", "probe."))}
    seeds = sorted(r["seed"] for r in results)
    cov: dict[str, Any] = {
        "evaluations": len(results),
        "distinct_nontrivial": len(nontrivial),
        "rule": mod.RULE,
        "samples": samples or [{"note": "no sample recorded"}],
        "runs_per_hour": int(len(results) / wall * 3600) if wall > 0 else 0,
        "seeds": {"base": base_seed, "first": seeds[0] if seeds else None, "last": seeds[-1] if seeds else None},
        "simulated_seconds_total": round(sim_time, 3),
        "steps_total": steps,
        "distinct_schedules_or_sequences": len(sched),
        "distinct_abstract_states": len(states),
        "faults_fired": faults,
        "probes": probes,
        "unreached_probes": sorted(k for k, v in probes.items() if v == 0) + sorted(p for p in getattr(mod, "PROBES", []) if p not in probes),
        "counters": other,
        "per_stratum": per_stratum,
        "planned": [{"stratum": s["stratum"], "runs": s["runs"], "params": s["params"]} for s in plan],
        "skipped_runs_wall_cap": skipped,
        "inconclusive_runs": sum(1 for r in results if r.get("inconclusive")),
        "known_findings_seen": known_seen,
        "unlisted_violations": [s for s, _ in unlisted],
        "harness_errors": len(errors),
        "real_components": getattr(mod, "REAL", []),
        "stubbed_components": getattr(mod, "STUBBED", []),
        "workers": MAX_PROCS,
    }
    if getattr(mod, "EXHAUSTIVE_NOTE", None):
        cov["exhaustive_strata"] = mod.EXHAUSTIVE_NOTE
    ev = {
        "property_id": prop,
        "tier": tier,
        "seed": base_seed,
        "level": mod.LEVEL,
        "coverage": cov,
        "assumptions": getattr(mod, "ASSUMPTIONS", []),
        "wall_s": round(wall, 2),
        "violations": len(unlisted),
    }
    os.makedirs(os.path.join(OUT, "evidence"), exist_ok=True)
    with open(os.path.join(OUT, "evidence", f"{prop}.json"), "w") as f:
        json.dump(ev, f, indent=1, default=str)


def main(argv: list[str]) -> int:
    if not argv:
        print(__doc__)
        return 2
    cmd = argv[0]
    if cmd == "worker":
        return worker_main(argv[1:])
    if cmd == "minimise":
        return minimise_main(argv[1:])
    if cmd == "replay":
        return replay_main(argv[1])
    raise SystemExit(f"unknown command {cmd}")


if __name__ == "__main__":
    sys.exit(main(sys.argv[1:]))
