"""Where the code under test lives.  Checks always read /repo's working tree;
the sensitivity self-test points VERIF_REPO at a scratch copy with a mutant."""

import os

REPO = os.environ.get("VERIF_REPO", "/repo")
VERIF = os.path.dirname(os.path.dirname(os.path.abspath(__file__)))
