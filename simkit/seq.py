"""simkit.seq -- sequential-engine environment (engine A): one simulated clock,
pynenc components of one or both backend families, no scheduler."""

from __future__ import annotations

from typing import Any

from simkit import apps, core


class SeqEnv:
    def __init__(self, seed: int, stacks: tuple[str, ...] = ("mem", "sqlite"), app_id: str = "simapp", defer_threads: bool = False, epoch: float | None = None, **conf: Any) -> None:
        self.sim = core.Sim(seed, threaded=False, defer_threads=defer_threads, epoch=epoch, delta=0.0)
        core.activate(self.sim)
        apps.reset_thread_context()
        self.dbs: list[str] = []
        self.apps: dict[str, Any] = {}
        try:
            for st in stacks:
                db = None
                if st == "sqlite":
                    db = apps.fresh_db()
                    self.dbs.append(db)
                app = apps.make_app(st, app_id=app_id, db_path=db, **conf)
                apps.instantiate_all(app)
                self.apps[st] = app
        except BaseException:
            self.close()
            raise

    def close(self) -> None:
        core.deactivate()
        self.apps.clear()
        import gc

        gc.collect()
        for db in self.dbs:
            apps.remove_db(db)

    def __enter__(self) -> "SeqEnv":
        return self

    def __exit__(self, *a: Any) -> None:
        self.close()
