"""simkit.sqlseam -- SQLite connections under the simulator.

The engine is the real sqlite3 on a real (tmpfs) file.  Only connection
handling is wrapped:

* busy timeout is 0: a statement that would wait for the write lock fails at
  once; the wrapper turns that into "blocked on db" -- the thread yields and
  retries after another connection commits / rolls back / closes, which is what
  SQLite's busy handler does in real time.  If nothing wakes it for 30 virtual
  seconds the error is delivered to pynenc (the real outcome of the timeout).
* every statement that touches shared tables or transaction state is a yield
  point (PRAGMA and DDL are not).
* julianday('now') reads the simulated clock.
* killing an actor rolls back and closes its connections.
"""

from __future__ import annotations

import sqlite3 as _real_sqlite3
import weakref
from typing import Any

from simkit import core

BUSY_TIMEOUT_S = 30.0


def classify(sql: str) -> str:
    s = sql.lstrip().split(None, 1)
    if not s:
        return "other"
    w = s[0].upper()
    if w == "PRAGMA":
        return "pragma"
    if w in ("CREATE", "DROP", "ALTER"):
        return "ddl"
    if w in ("SELECT", "INSERT", "UPDATE", "DELETE", "REPLACE", "BEGIN", "COMMIT", "ROLLBACK", "END"):
        return w.lower()
    return "other"


def table_hint(sql: str) -> str:
    """component/table name without the app prefix, for logs and signatures."""
    i = sql.find("__")
    if i < 0:
        return ""
    j = i + 2
    n = len(sql)
    while j < n and (sql[j].isalnum() or sql[j] == "_"):
        j += 1
    return sql[i + 2 : j]


def _julianday(*args: Any) -> float:
    """julianday('now') on the simulated clock (no reference to the connection:
    a bound method here would make every connection a reference cycle)."""
    sim = core.CURRENT
    if sim is None:
        import time as _t

        return _t.time() / 86400.0 + 2440587.5
    return sim.time() / 86400.0 + 2440587.5


class SimConnection:
    def __init__(self, sim: core.Sim, path: str) -> None:
        self._sim = sim
        self._path = path
        self._real = _real_sqlite3.connect(path, timeout=0.0, check_same_thread=False)
        self._real.create_function("julianday", -1, _julianday)
        self._actor = sim.current_actor()
        self._actor.conns.append(weakref.ref(self))
        if len(self._actor.conns) > 64:
            self._actor.conns = [r for r in self._actor.conns if r() is not None]
        self._closed = False
        sim.bump("sql.connect")

    # -- helpers ----------------------------------------------------------
    def _crash_close(self) -> None:
        if self._closed:
            return
        try:
            self._real.rollback()
        except Exception:  # noqa: BLE001
            pass
        try:
            self._real.close()
        except Exception:  # noqa: BLE001
            pass
        self._closed = True

    _BACKOFF_MS = (1, 2, 5, 10, 15, 20, 25, 25, 25, 50, 50, 100)

    def _locked_wait(self, err: Exception, state: dict) -> None:
        """SQLite's busy handler in virtual time: sleep with its back-off steps
        (woken early when another connection commits / rolls back / closes),
        give the error to pynenc after BUSY_TIMEOUT_S."""
        sim = self._sim
        sim.bump("sql.busy_wait")
        th = sim.current_thread()
        if not sim.threaded or th is None:
            # sequential engine: nobody else can release the lock
            sim.advance(BUSY_TIMEOUT_S)
            raise err
        if "deadline" not in state:
            state["deadline"] = sim.now + BUSY_TIMEOUT_S
            state["n"] = 0
        if sim.now >= state["deadline"]:
            sim.bump("sql.busy_timeout")
            raise err
        step = self._BACKOFF_MS[min(state["n"], len(self._BACKOFF_MS) - 1)] / 1000.0
        state["n"] += 1
        sim.log_event("db-busy", None)
        sim.block(("db", self), min(state["deadline"], sim.now + step))

    def _run(self, fn: Any, *a: Any) -> Any:
        state: dict = {}
        while True:
            try:
                return fn(*a)
            except _real_sqlite3.OperationalError as e:
                if "locked" in str(e) or "busy" in str(e):
                    self._locked_wait(e, state)
                    continue
                raise

    # -- sqlite3.Connection surface used by pynenc ------------------------
    def execute(self, sql: str, parameters: Any = (), /) -> Any:
        sim = self._sim
        sim.check_alive()
        kind = classify(sql)
        if kind == "pragma":
            if "busy_timeout" in sql.lower():
                return self._real.execute("PRAGMA busy_timeout=0")
            return self._real.execute(sql, parameters)
        if kind != "ddl":
            hint = table_hint(sql)
            sim.bump("sql.stmt")
            sim.log_event("sql", (kind, hint))
            sim.yield_point("sql", (kind, hint))
            eff = getattr(sim, "sql_effect_hook", None)
            if eff is not None:
                eff(self, kind, hint, "before")
        cur = self._run(self._real.execute, sql, parameters)
        if kind in ("commit", "rollback", "end"):
            sim.wake_db_waiters()
        return cur

    def commit(self) -> None:
        sim = self._sim
        sim.check_alive()
        if self._real.in_transaction:
            sim.log_event("sql", ("commit", ""))
            sim.yield_point("sql", ("commit", ""))
            eff = getattr(sim, "sql_effect_hook", None)
            if eff is not None:
                eff(self, "commit", "", "before")
            self._run(self._real.commit)
            sim.bump("sql.commit")
            sim.wake_db_waiters()
            if eff is not None:
                eff(self, "commit", "", "after")
        else:
            self._real.commit()

    def rollback(self) -> None:
        self._real.rollback()
        self._sim.wake_db_waiters()

    def close(self) -> None:
        if not self._closed:
            self._closed = True
            self._real.close()
            self._sim.wake_db_waiters()

    def cursor(self, *a: Any, **k: Any) -> Any:
        return self._real.cursor(*a, **k)

    def __enter__(self) -> "SimConnection":
        return self

    def __exit__(self, exc_type: Any, exc: Any, tb: Any) -> bool:
        if self._closed:
            return False
        if exc_type is None:
            self.commit()
        else:
            try:
                self._real.rollback()
            finally:
                self._sim.wake_db_waiters()
        return False

    def __getattr__(self, name: str) -> Any:
        return getattr(self._real, name)

    def __del__(self) -> None:
        try:
            if not self._closed:
                intx = self._real.in_transaction
                self._real.close()
                if intx:
                    self._sim.wake_db_waiters()
        except Exception:  # noqa: BLE001
            pass
