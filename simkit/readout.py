"""simkit.readout -- a full, read-only snapshot of what is observable about an app.

Used by the isolation (C17), equivalence (C16) and monitoring (C20) checks.
Everything goes through the public component APIs except the queue content,
which is peeked (the broker has no public peek): the in-memory deque is listed,
the SQLite queue table is read with a plain SELECT in delivery order.
"""

from __future__ import annotations

import sqlite3 as _real_sqlite3
from typing import Any


def peek_queue(app: Any) -> list[str]:
    b = app.broker
    if hasattr(b, "_queue"):
        return [str(x) for x in b._queue]
    path = b.sqlite_db_path
    conn = _real_sqlite3.connect(path, timeout=5.0)
    try:
        rows = conn.execute(f"SELECT invocation_id FROM {b.tables.QUEUE} ORDER BY created_at ASC, id ASC").fetchall()
    finally:
        conn.close()
    return [str(r[0]) for r in rows]


def table_list(db_path: str) -> list[str]:
    conn = _real_sqlite3.connect(db_path, timeout=5.0)
    try:
        rows = conn.execute("SELECT name FROM sqlite_master WHERE type='table' ORDER BY name").fetchall()
    finally:
        conn.close()
    return [r[0] for r in rows]


def table_counts(db_path: str, prefix: str) -> dict[str, int]:
    """Row count of every table whose name starts with `prefix` (plain string match)."""
    conn = _real_sqlite3.connect(db_path, timeout=5.0)
    out = {}
    try:
        for (name,) in conn.execute("SELECT name FROM sqlite_master WHERE type='table' ORDER BY name").fetchall():
            if name.startswith(prefix):
                out[name] = conn.execute(f'SELECT COUNT(*) FROM "{name}"').fetchone()[0]
    finally:
        conn.close()
    return out


def own_tables(app: Any) -> list[str]:
    """Exact names of the tables the app's SQLite components declare."""
    names = set()
    for comp in (app.broker, app.orchestrator, app.state_backend, app.trigger, app.client_data_store):
        t = getattr(comp, "tables", None)
        if t is None:
            continue
        for k, v in vars(t).items():
            if k != "table_prefix" and isinstance(v, str):
                names.add(v)
    return sorted(names)


def exact_table_counts(db_path: str, names: list[str]) -> dict[str, Any]:
    conn = _real_sqlite3.connect(db_path, timeout=5.0)
    out: dict[str, Any] = {}
    try:
        existing = {r[0] for r in conn.execute("SELECT name FROM sqlite_master WHERE type='table'").fetchall()}
        for n in names:
            out[n] = conn.execute(f'SELECT COUNT(*) FROM "{n}"').fetchone()[0] if n in existing else None
    finally:
        conn.close()
    return out


def _safe(fn: Any) -> Any:
    try:
        return fn()
    except Exception as e:  # noqa: BLE001
        return f"<{type(e).__name__}>"


def snapshot(app: Any, inv_ids: list[str], data_keys: list[str] | None = None, workflows: list[Any] | None = None, runner_ids: list[str] | None = None) -> dict:
    """What a client of `app` can observe (read-only)."""
    o, sb, tr = app.orchestrator, app.state_backend, app.trigger
    snap: dict[str, Any] = {}
    snap["queue"] = peek_queue(app)
    snap["queue_len"] = _safe(app.broker.count_invocations)
    snap["inv_count"] = _safe(o.count_invocations)
    inv = {}
    for i in inv_ids:
        rec = _safe(lambda i=i: o.get_invocation_status_record(i))
        if isinstance(rec, str):
            inv[i] = {"status": rec}
            continue
        inv[i] = {
            "status": rec.status.name,
            "owner": rec.runner_id,
            "ts": round(rec.timestamp.timestamp(), 6),
            "retries": _safe(lambda i=i: o.get_invocation_retries(i)),
            "stored": _safe(lambda i=i: sb._get_invocation(i) is not None),
            "result": _safe(lambda i=i: repr(sb.get_result(i))[:80]),
            "exception": _safe(lambda i=i: repr(sb.get_exception(i))[:80]),
            "history": _safe(lambda i=i: sorted((h.status_record.status.name, h.status_record.runner_id, h.runner_context_id) for h in sb.get_history(i))),
        }
    snap["invocations"] = inv
    snap["blocking"] = _safe(lambda: sorted(str(x) for x in o.get_blocking_invocations(50)))
    snap["active_runners"] = _safe(lambda: sorted((r.runner_id, r.allow_to_run_atomic_service, r.last_service_start is not None) for r in o.get_active_runners()))
    snap["runner_contexts"] = _safe(lambda: sorted(str(c.runner_id) for c in sb.get_runner_contexts(list(runner_ids or []))))
    snap["conditions"] = _safe(lambda: sorted(c.condition_id for c in tr._get_all_conditions()))
    snap["valid_conditions"] = _safe(lambda: sorted(tr.get_valid_conditions().keys()))
    snap["workflow_data"] = _safe(lambda: {str(w.workflow_id): repr(sb.get_workflow_data(w, "k", None)) for w in (workflows or [])})
    snap["client_data"] = {k[-12:]: _safe(lambda k=k: repr(app.client_data_store.resolve(k))[:60]) for k in (data_keys or [])}
    return snap


def diff(a: dict, b: dict, path: str = "") -> list[str]:
    out = []
    if isinstance(a, dict) and isinstance(b, dict):
        for k in sorted(set(a) | set(b), key=str):
            if k not in a:
                out.append(f"{path}/{k}: appeared {str(b[k])[:80]}")
            elif k not in b:
                out.append(f"{path}/{k}: disappeared (was {str(a[k])[:80]})")
            else:
                out.extend(diff(a[k], b[k], f"{path}/{k}"))
    elif a != b:
        out.append(f"{path}: {str(a)[:120]} -> {str(b)[:120]}")
    return out
