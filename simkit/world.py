"""simkit.world -- threaded-engine environment (engine B).

A World is one simulated deployment: a store (in-memory family shared by all
actors of one process image, or one SQLite file shared by actors that each have
their own Pynenc object, as real processes do), the actors, the transition log
and the body probe.
"""

from __future__ import annotations

import gc
import hashlib
import os
from typing import Any, Callable

from simkit import apps, core

PYNENC_DIR = os.path.join(os.environ.get("VERIF_REPO", "/repo"), "pynenc")

SHARED_STATE_FILES = [
    "orchestrator/base_orchestrator.py",
    "orchestrator/mem_orchestrator.py",
    "orchestrator/sqlite_orchestrator.py",
    "broker/mem_broker.py",
    "broker/sqlite_broker.py",
    "state_backend/base_state_backend.py",
    "state_backend/mem_state_backend.py",
    "state_backend/sqlite_state_backend.py",
    "trigger/base_trigger.py",
    "trigger/mem_trigger.py",
    "trigger/sqlite_trigger.py",
    "runner/base_runner.py",
    "runner/thread_runner.py",
    "invocation/dist_invocation.py",
    "core_tasks.py",
    "client_data_store/base_client_data_store.py",
    "client_data_store/mem_client_data_store.py",
    "workflow/workflow_deterministic.py",
    "workflow/workflow_context.py",
    "task.py",
]


def traced(files: list[str] | None = None) -> set[str]:
    return {os.path.join(PYNENC_DIR, f) for f in (files or SHARED_STATE_FILES)}


class World:
    def __init__(
        self,
        seed: int,
        stack: str,
        actors: list[str],
        *,
        policy: str = "rand",
        policy_arg: float = 0.25,
        schedule: list | None = None,
        trace_files: list[str] | None | bool = None,
        max_steps: int = 60_000,
        max_time: float | None = 600.0,
        delta: float = 1e-4,
        delta_spin: float = 2e-3,
        app_id: str = "simapp",
        conf: dict | None = None,
        epoch: float | None = None,
        wall_timeout: float = 90.0,
    ) -> None:
        self.seed = seed
        self.stack = stack
        trace_lines = bool(trace_files)
        tf = traced(None if trace_files is True else trace_files) if trace_lines else set()
        self.sim = core.Sim(
            seed,
            threaded=True,
            policy=policy,
            policy_arg=policy_arg,
            schedule=schedule,
            trace_lines=trace_lines,
            traced_files=tf,
            max_steps=max_steps,
            max_time=max_time,
            delta=delta,
            delta_spin=delta_spin,
            epoch=epoch,
            wall_timeout=wall_timeout,
        )
        core.activate(self.sim)
        apps.reset_thread_context()
        self.db: str | None = None
        self.apps: dict[str, Any] = {}
        self.tlog: list[dict] = []  # transition log
        self.refused: list[dict] = []  # refused status requests
        self.hist_calls: list[dict] = []  # add_history(ies) calls: invocation, record time, event seq at return
        self.body: list[dict] = []  # body enter/exit events
        self.events: list[tuple] = []  # check-specific observations (global seq stamped)
        self.conf = dict(conf or {})
        self.app_id = app_id
        try:
            if stack == "sqlite":
                self.db = apps.fresh_db()
            shared = None
            for a in actors:
                self.sim.actor(a)
                if stack == "mem":
                    if shared is None:
                        shared = self._make_app()
                    self.apps[a] = shared
                else:
                    self.sim.seq_actor = self.sim.actor(a)  # type: ignore[attr-defined]
                    self.apps[a] = self._make_app()
            self.sim.seq_actor = None  # type: ignore[attr-defined]
        except BaseException:
            self.close()
            raise

    # ------------------------------------------------------------------ set-up
    def _make_app(self) -> Any:
        app = apps.make_app(self.stack, app_id=self.app_id, db_path=self.db, **self.conf)
        apps.instantiate_all(app)
        self._instrument(app)
        return app

    def distinct_apps(self) -> list[Any]:
        seen: list[Any] = []
        for a in self.apps.values():
            if not any(a is s for s in seen):
                seen.append(a)
        return seen

    def register(self, func: Callable, **options: Any) -> dict[str, Any]:
        """Register the task on every app object; returns {actor: Task}."""
        by_app: dict[int, Any] = {}
        out = {}
        for name, app in self.apps.items():
            if id(app) not in by_app:
                by_app[id(app)] = apps.register(app, func, **options)
            out[name] = by_app[id(app)]
        return out

    def _instrument(self, app: Any) -> None:
        """Transition log: every successful atomic status write, with the
        requester, stamped with the global event sequence."""
        world = self
        orch = app.orchestrator
        orig_atomic = orch._atomic_status_transition
        orig_register = orch._register_new_invocations

        def atomic(invocation_id: Any, status: Any, runner_id: Any = None) -> Any:
            try:
                rec = orig_atomic(invocation_id, status, runner_id)
            except Exception as e:  # refused (or failed) request: observed, then re-raised
                world.refused.append({"seq": len(world.sim.log), "inv": str(invocation_id), "status": status.name, "requester": runner_id, "error": type(e).__name__})
                world.sim.log_event("refused", (world.alias(str(invocation_id)), status.name, runner_id, type(e).__name__))
                raise
            world._log_transition(str(invocation_id), rec, runner_id, "transition")
            return rec

        def register(invocations: Any, runner_id: Any = None) -> Any:
            rec = orig_register(invocations, runner_id)
            for inv in invocations:
                world._log_transition(str(inv.invocation_id), rec, runner_id, "register")
            return rec

        orch._atomic_status_transition = atomic
        orch._register_new_invocations = register
        # when did the caller hand each change over to the history? (C10: the stored order -- the
        # entries' own timestamps, which get_history sorts by -- must respect happens-before)
        sb = app.state_backend
        orig_add_history = sb.add_history
        orig_add_histories = sb.add_histories

        def add_history(invocation_id: Any, status_record: Any, runner_context: Any) -> Any:
            r = orig_add_history(invocation_id, status_record, runner_context)
            world.hist_calls.append({"inv": str(invocation_id), "ts": status_record.timestamp.timestamp(), "ret": len(world.sim.log)})
            return r

        def add_histories(invocations: Any, status_record: Any, runner_context: Any) -> Any:
            r = orig_add_histories(invocations, status_record, runner_context)
            for inv in invocations:
                world.hist_calls.append({"inv": str(inv.invocation_id), "ts": status_record.timestamp.timestamp(), "ret": len(world.sim.log)})
            return r

        sb.add_history = add_history
        sb.add_histories = add_histories

    def _log_transition(self, inv_id: str, rec: Any, requester: Any, how: str) -> None:
        sim = self.sim
        th = sim.current_thread()
        ts = rec.timestamp
        ts = ts.timestamp() if hasattr(ts, "timestamp") else float(ts)
        self.tlog.append(
            {
                "seq": len(sim.log),
                "inv": inv_id,
                "status": rec.status.name,
                "owner": rec.runner_id,
                "ts": ts,
                "requester": requester,
                "actor": th.actor.name if th else "-",
                "how": how,
            }
        )
        sim.log_event("transition", (self.alias(inv_id), rec.status.name, self.alias_runner(requester)))

    # ------------------------------------------------------------------ aliases
    def alias(self, inv_id: str) -> str:
        """uuid-shim ids end in a run-local counter: stable short names."""
        return "i" + str(int(str(inv_id)[-12:], 16)) if len(str(inv_id)) == 36 else str(inv_id)

    def alias_runner(self, rid: Any) -> Any:
        return rid

    # ------------------------------------------------------------------ probes
    def probe(self, ev: str, inv_id: Any, payload: Any = None) -> None:
        sim = self.sim
        th = sim.current_thread()
        self.body.append({"seq": len(sim.log), "ev": ev, "inv": str(inv_id), "payload": payload, "thread": th.name if th else "-", "t": sim.now})
        sim.log_event("body-" + ev, self.alias(str(inv_id)) if inv_id else None)

    def observe(self, kind: str, detail: Any) -> None:
        self.events.append((len(self.sim.log), kind, detail))
        self.sim.log_event("obs-" + kind, detail if isinstance(detail, (str, int, tuple)) else None)

    # ------------------------------------------------------------------ run
    def run(self, mains: list[tuple[str, str, Callable[[], Any]]]) -> None:
        from workloads import simtasks

        simtasks.PROBE = self.probe
        try:
            self.sim.run(mains)
        finally:
            simtasks.PROBE = None

    def result_common(self) -> dict:
        sim = self.sim
        sw = hashlib.sha256(repr(sim.switch_sites).encode()).hexdigest()[:16]
        return {
            "steps": sim.steps,
            "sim_time": round(sim.now - sim.epoch, 4),
            "sched_hash": sw,
            "schedule": sim.deviations,
            "digest": sim.digest(),
            "abort": sim.abort_reason,
            "stats": dict(sim.stats),
            "switches": len(sim.switch_sites),
        }

    def close(self) -> None:
        core.deactivate()
        self.apps.clear()
        gc.collect()
        if self.db:
            apps.remove_db(self.db)

    def __enter__(self) -> "World":
        return self

    def __exit__(self, *a: Any) -> None:
        self.close()


def check_transition_paths(tlog: list[dict], lifecycle: Any) -> list[tuple[str, str]]:
    """Oracle shared by C02 / C06 / C10: per invocation, the successful status
    writes ordered by the record's own time are a path of the documented
    lifecycle *with ownership*.  Returns [(signature-suffix, message)]."""
    out = []
    by_inv: dict[str, list[dict]] = {}
    for e in tlog:
        by_inv.setdefault(e["inv"], []).append(e)
    for inv, evs in by_inv.items():
        evs = sorted(evs, key=lambda e: (e["ts"], e["seq"]))
        state = None
        for i, e in enumerate(evs):
            if i == 0:
                if e["status"] != "REGISTERED":
                    out.append((f"first-not-registered/{e['status']}", f"{inv}: first recorded status is {e['status']}"))
                state = (e["status"], e["owner"])
                continue
            outc, nxt = lifecycle.step(state, e["status"], e["requester"])
            if outc != "ok":
                prev = evs[i - 1]
                kind = "double-claim" if (state[0] == "PENDING" and e["status"] == "PENDING") else f"illegal-step/{outc}"
                out.append(
                    (
                        f"{kind}/{state[0]}->{e['status']}",
                        f"{inv}: {state[0]}(owner {state[1]}) -> {e['status']} requested by {e['requester']} [{e['actor']}] at t={e['ts']:.6f} "
                        f"after {prev['status']} by {prev['requester']} [{prev['actor']}] at t={prev['ts']:.6f}: not a legal owned step ({outc})",
                    )
                )
                state = (e["status"], e["owner"])
                continue
            if nxt[1] != e["owner"]:
                out.append((f"wrong-owner/{e['status']}", f"{inv}: record {e['status']} carries owner {e['owner']!r}, expected {nxt[1]!r}"))
            state = (e["status"], e["owner"])
    return out
