"""simkit.apps -- build pynenc application objects for a simulated run."""

from __future__ import annotations

import logging
import os
import shutil
import tempfile
from typing import Any, Callable

MEM = {
    "orchestrator_cls": "MemOrchestrator",
    "broker_cls": "MemBroker",
    "state_backend_cls": "MemStateBackend",
    "trigger_cls": "MemTrigger",
    "client_data_store_cls": "MemClientDataStore",
}
SQLITE = {
    "orchestrator_cls": "SQLiteOrchestrator",
    "broker_cls": "SQLiteBroker",
    "state_backend_cls": "SQLiteStateBackend",
    "trigger_cls": "SQLiteTrigger",
    "client_data_store_cls": "SQLiteClientDataStore",
}

_workdir: str | None = None
_counter = 0


def scrub_env() -> None:
    for k in list(os.environ):
        if k.startswith("PYNENC"):
            del os.environ[k]


def workdir() -> str:
    global _workdir
    if _workdir is None:
        base = "/dev/shm" if os.path.isdir("/dev/shm") and os.access("/dev/shm", os.W_OK) else None
        if base is None:
            base = os.path.join(os.path.dirname(os.path.dirname(__file__)), ".work")
            os.makedirs(base, exist_ok=True)
        _workdir = tempfile.mkdtemp(prefix=f"pynenc-verif-{os.getpid()}-", dir=base)
        import atexit

        atexit.register(cleanup)
    return _workdir


def cleanup() -> None:
    global _workdir
    if _workdir and os.path.isdir(_workdir):
        shutil.rmtree(_workdir, ignore_errors=True)
    _workdir = None


def fresh_db() -> str:
    global _counter
    _counter += 1
    path = os.path.join(workdir(), f"run{_counter}.db")
    for suffix in ("", "-wal", "-shm"):
        try:
            os.unlink(path + suffix)
        except FileNotFoundError:
            pass
    return path


def remove_db(path: str) -> None:
    for suffix in ("", "-wal", "-shm", "-journal"):
        try:
            os.unlink(path + suffix)
        except FileNotFoundError:
            pass


def make_app(stack: str, app_id: str = "simapp", db_path: str | None = None, **conf: Any) -> Any:
    """A fresh Pynenc object (never a multiton hit) with quiet logging."""
    from pynenc import Pynenc

    Pynenc._instances.clear()
    values: dict[str, Any] = {"app_id": app_id, "logging_level": "critical"}
    values.update(MEM if stack == "mem" else SQLITE)
    if stack == "sqlite":
        if db_path is None:
            raise ValueError("sqlite stack needs db_path")
        values["sqlite_db_path"] = db_path
    values.setdefault("runner_cls", "ThreadRunner")
    values.update(conf)
    app = Pynenc(config_values=values)
    lg = app.logger
    lg.handlers.clear()
    lg.filters.clear()
    lg.setLevel(logging.CRITICAL + 10)
    lg.propagate = False
    return app


def instantiate_all(app: Any) -> None:
    """Touch every lazily created component (tables are created here, before
    the scheduled phase of a run)."""
    app.orchestrator
    app.orchestrator.blocking_control
    app.broker
    app.state_backend
    app.client_data_store
    app.trigger
    app.serializer


def register(app: Any, func: Callable, triggers: Any = None, **options: Any) -> Any:
    """Register a module-level function as a task of this app object
    (what the @app.task decorator does)."""
    from pynenc.task import Task

    t = Task(app, func, options)
    app._tasks[t.task_id] = t
    if triggers:
        app._store_deferred_trigger(t, triggers)
    return t


def reset_thread_context() -> None:
    """pynenc keeps the current app / runner context / invocation in a
    thread-local; on the controller thread that state would leak from one
    simulated run into the next (and into its digest)."""
    from pynenc import context

    context.thread_local.__dict__.clear()
