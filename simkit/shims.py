"""simkit.shims -- the seams: module-attribute replacement in pynenc / pynmon.

Every shim delegates to `core.CURRENT`; when no simulation is active it passes
through to the real thing, so importing this module changes nothing until a
run starts.  `install()` walks all loaded pynenc.* / pynmon.* modules and
replaces attributes *by identity*; `uninstall()` restores them.
"""

from __future__ import annotations

import datetime as _real_datetime_mod
import importlib
import os as _real_os
import pkgutil
import signal as _real_signal
import socket as _real_socket
import sqlite3 as _real_sqlite3
import sys
import threading as _real_threading
import time as _real_time
import uuid as _real_uuid
from typing import Any

from simkit import core
from simkit.core import SimEvent, SimLock, SimRLock, SimThread

_RealDateTime = _real_datetime_mod.datetime


# ----------------------------------------------------------------------------- time
def sim_time() -> float:
    sim = core.CURRENT
    return sim.clock_read() if sim is not None else _real_time.time()


def sim_sleep(seconds: float) -> None:
    sim = core.CURRENT
    if sim is None:
        _real_time.sleep(seconds)
    else:
        sim.check_alive()
        sim.sleep(seconds)
        sim.check_alive()


class _ModuleShim:
    """Module-shaped object: overrides some names, passes the rest through."""

    _real: Any = None

    def __getattr__(self, name: str) -> Any:
        return getattr(self._real, name)

    def __repr__(self) -> str:
        return f"<sim shim of {self._real!r}>"


class TimeShim(_ModuleShim):
    _real = _real_time
    time = staticmethod(sim_time)
    sleep = staticmethod(sim_sleep)

    @staticmethod
    def monotonic() -> float:
        return sim_time()

    @staticmethod
    def perf_counter() -> float:
        return sim_time()


# ----------------------------------------------------------------------------- datetime
class _SimDateTimeMeta(type):
    def __instancecheck__(cls, obj: Any) -> bool:
        return isinstance(obj, _RealDateTime)

    def __subclasscheck__(cls, sub: Any) -> bool:
        return issubclass(sub, _RealDateTime)


class SimDateTime(_RealDateTime, metaclass=_SimDateTimeMeta):
    """Stands in for the `datetime` class inside pynenc modules.

    Instances are never created: every constructor returns a *real* datetime,
    only the clock-reading class methods differ.
    """

    def __new__(cls, *a: Any, **k: Any) -> Any:  # type: ignore[override]
        return _RealDateTime(*a, **k)

    @classmethod
    def now(cls, tz: Any = None) -> Any:  # type: ignore[override]
        sim = core.CURRENT
        if sim is None:
            return _RealDateTime.now(tz)
        t = sim.time()
        if tz is None:
            return _RealDateTime.fromtimestamp(t, _real_datetime_mod.UTC).replace(tzinfo=None)
        return _RealDateTime.fromtimestamp(t, tz)

    @classmethod
    def utcnow(cls) -> Any:  # type: ignore[override]
        sim = core.CURRENT
        if sim is None:
            return _RealDateTime.utcnow()
        return _RealDateTime.fromtimestamp(sim.time(), _real_datetime_mod.UTC).replace(tzinfo=None)

    @classmethod
    def today(cls) -> Any:  # type: ignore[override]
        return cls.now()

    fromtimestamp = _RealDateTime.fromtimestamp  # type: ignore[assignment]
    utcfromtimestamp = _RealDateTime.utcfromtimestamp  # type: ignore[assignment]
    fromisoformat = _RealDateTime.fromisoformat  # type: ignore[assignment]
    strptime = _RealDateTime.strptime  # type: ignore[assignment]
    combine = _RealDateTime.combine  # type: ignore[assignment]
    fromordinal = _RealDateTime.fromordinal  # type: ignore[assignment]
    fromisocalendar = _RealDateTime.fromisocalendar  # type: ignore[assignment]
    min = _RealDateTime.min  # type: ignore[assignment]
    max = _RealDateTime.max  # type: ignore[assignment]


class DatetimeModuleShim(_ModuleShim):
    _real = _real_datetime_mod
    datetime = SimDateTime


# ----------------------------------------------------------------------------- threading
class _MainThreadSentinel:
    name = "MainThread"
    ident = 1
    daemon = False

    def is_alive(self) -> bool:
        return True


_MAIN_SENTINEL = _MainThreadSentinel()


def _thread_factory(*a: Any, **k: Any) -> Any:
    if core.CURRENT is None:
        return _real_threading.Thread(*a, **k)
    return SimThread(*a, **k)


def _lock_factory() -> Any:
    return SimLock()


def _rlock_factory() -> Any:
    return SimRLock()


def _event_factory() -> Any:
    return SimEvent()


class ThreadingShim(_ModuleShim):
    _real = _real_threading
    Thread = staticmethod(_thread_factory)
    Lock = staticmethod(_lock_factory)
    RLock = staticmethod(_rlock_factory)
    Event = staticmethod(_event_factory)

    @staticmethod
    def current_thread() -> Any:
        sim = core.CURRENT
        if sim is None:
            return _real_threading.current_thread()
        th = sim.current_thread()
        return th if th is not None else _MAIN_SENTINEL

    @staticmethod
    def main_thread() -> Any:
        if core.CURRENT is None:
            return _real_threading.main_thread()
        # never the current thread: simulated processes do not install real
        # signal handlers (the signal shim records them instead)
        return _MAIN_SENTINEL if core.CURRENT.threaded else object()

    @staticmethod
    def get_ident() -> int:
        sim = core.CURRENT
        if sim is None:
            return _real_threading.get_ident()
        th = sim.current_thread()
        return th.ident if th is not None and th.ident else 1


# ----------------------------------------------------------------------------- uuid / os / socket / signal
class UuidShim(_ModuleShim):
    _real = _real_uuid

    @staticmethod
    def uuid4() -> Any:
        sim = core.CURRENT
        if sim is None:
            return _real_uuid.uuid4()
        return sim.uuid4()


def sim_getpid() -> int:
    sim = core.CURRENT
    if sim is None:
        return _real_os.getpid()
    return sim.current_actor().pid


class OsShim(_ModuleShim):
    _real = _real_os
    getpid = staticmethod(sim_getpid)

    @staticmethod
    def kill(pid: int, sig: int) -> None:
        sim = core.CURRENT
        if sim is None:
            return _real_os.kill(pid, sig)
        sim.log_event("os.kill", (pid, int(sig)))
        hook = getattr(sim, "os_kill_hook", None)
        if hook is not None:
            hook(pid, sig)


def sim_gethostname() -> str:
    if core.CURRENT is None:
        return _real_socket.gethostname()
    return "simhost"


class SocketShim(_ModuleShim):
    _real = _real_socket
    gethostname = staticmethod(sim_gethostname)


class SignalShim(_ModuleShim):
    _real = _real_signal

    @staticmethod
    def signal(signum: int, handler: Any) -> Any:
        sim = core.CURRENT
        if sim is None:
            return _real_signal.signal(signum, handler)
        actor = sim.current_actor()
        prev = actor.signal_handlers.get(int(signum), _real_signal.SIG_DFL)
        actor.signal_handlers[int(signum)] = handler
        return prev


# ----------------------------------------------------------------------------- sqlite
class Sqlite3Shim(_ModuleShim):
    _real = _real_sqlite3

    @staticmethod
    def connect(database: Any, *a: Any, **k: Any) -> Any:
        sim = core.CURRENT
        if sim is None:
            return _real_sqlite3.connect(database, *a, **k)
        from simkit.sqlseam import SimConnection

        return SimConnection(sim, str(database))


TIME = TimeShim()
DATETIME_MOD = DatetimeModuleShim()
THREADING = ThreadingShim()
UUID = UuidShim()
OS = OsShim()
SOCKET = SocketShim()
SIGNAL = SignalShim()
SQLITE3 = Sqlite3Shim()

_BY_ID: dict[int, Any] = {
    id(_real_time): TIME,
    id(_real_time.time): sim_time,
    id(_real_time.sleep): sim_sleep,
    id(_real_datetime_mod): DATETIME_MOD,
    id(_RealDateTime): SimDateTime,
    id(_real_threading): THREADING,
    id(_real_uuid): UUID,
    id(_real_uuid.uuid4): UUID.uuid4,
    id(_real_os): OS,
    id(_real_os.getpid): sim_getpid,
    id(_real_socket): SOCKET,
    id(_real_socket.gethostname): sim_gethostname,
    id(_real_signal): SIGNAL,
    id(_real_sqlite3): SQLITE3,
}

# modules that keep the real objects (logging / CLI / plugin discovery only)
_SKIP_PREFIXES = (
    "pynenc.util.log",
    "pynenc.cli.",
    "pynenc.util.import_app",
    "pynenc.plugin_loader",
    "pynenc.builder",
)

_installed: list[tuple[Any, str, Any]] = []
_inventory: dict[str, list[str]] = {}


def import_all() -> None:
    """Import every pynenc / pynmon module so the pass sees all of them."""
    import pynenc

    for pkgname in ("pynenc", "pynmon"):
        try:
            pkg = importlib.import_module(pkgname)
        except Exception:  # noqa: BLE001
            continue
        for m in pkgutil.walk_packages(pkg.__path__, pkgname + "."):
            if m.name.startswith("pynenc.cli.") or m.name == "pynenc.cli" or "__main__" in m.name:
                continue
            try:
                importlib.import_module(m.name)
            except Exception:  # noqa: BLE001
                pass
    del pynenc


def install() -> dict[str, list[str]]:
    """Replace the nondeterminism sources in all loaded pynenc/pynmon modules."""
    if _installed:
        return _inventory
    import_all()
    for name, mod in sorted(sys.modules.items()):
        if mod is None or not (name.startswith("pynenc") or name.startswith("pynmon")):
            continue
        if name.startswith(_SKIP_PREFIXES) or name == "pynenc.cli":
            continue
        for attr, val in list(vars(mod).items()):
            repl = _BY_ID.get(id(val))
            if repl is None:
                continue
            setattr(mod, attr, repl)
            _installed.append((mod, attr, val))
            _inventory.setdefault(_kind(val), []).append(f"{name}.{attr}")
    # pynenc's wait loops spin without sleeping (ThreadRunner._waiting_for_results
    # returns at once; on the in-memory stack not even the clock is read): under
    # the GIL such a loop is pre-empted, here it must hand the baton back.
    from pynenc.runner.base_runner import BaseRunner

    orig_wait = BaseRunner.waiting_for_results

    def waiting_for_results(self: Any, *a: Any, **k: Any) -> Any:
        sim = core.CURRENT
        if sim is not None:
            sim.spin_point()
        return orig_wait(self, *a, **k)

    waiting_for_results.__wrapped__ = orig_wait  # type: ignore[attr-defined]
    BaseRunner.waiting_for_results = waiting_for_results  # type: ignore[method-assign]
    _installed.append((BaseRunner, "waiting_for_results", orig_wait))
    # objects created at import time
    from pynenc.state_backend.mem_state_backend import MemStateBackend

    if not isinstance(MemStateBackend._registry_lock, SimLock):
        _installed.append((MemStateBackend, "_registry_lock", MemStateBackend._registry_lock))
        MemStateBackend._registry_lock = SimLock()
    return _inventory


def uninstall() -> None:
    while _installed:
        mod, attr, val = _installed.pop()
        setattr(mod, attr, val)
    _inventory.clear()


def _kind(val: Any) -> str:
    for n, o in (
        ("time", _real_time),
        ("time.time", _real_time.time),
        ("time.sleep", _real_time.sleep),
        ("datetime(module)", _real_datetime_mod),
        ("datetime(class)", _RealDateTime),
        ("threading", _real_threading),
        ("uuid", _real_uuid),
        ("os", _real_os),
        ("os.getpid", _real_os.getpid),
        ("socket", _real_socket),
        ("signal", _real_signal),
        ("sqlite3", _real_sqlite3),
    ):
        if val is o:
            return n
    return "other"


def assert_no_real_threading() -> None:
    """A single unshimmed threading.Thread site corrupts the baton."""
    bad = []
    for name, mod in sys.modules.items():
        if mod is None or not name.startswith("pynenc") or name.startswith(_SKIP_PREFIXES):
            continue
        for attr, val in vars(mod).items():
            if val is _real_threading or val is _real_threading.Thread:
                bad.append(f"{name}.{attr}")
    if bad:
        raise core.HarnessError(f"unshimmed threading in {bad}")
