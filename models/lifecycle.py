"""Reference lifecycle of an invocation -- independent of pynenc.invocation.status.

Edges are parsed from the *documentation* (docs/_static/invocation_state_machine.svg,
`data-edge="A->B"` attributes).  Ownership rules are the axioms written in the
property statement itself:

* the initial status is REGISTERED (START -> REGISTERED);
* SUCCESS, FAILED, CONCURRENCY_CONTROLLED_FINAL are never left;
* PENDING, RUNNING, PAUSED, RESUMED can only be moved by their owner, except
  into the two recovery statuses;
* entering PENDING makes the requester the owner, which must be non-empty;
* RUNNING / PAUSED / RESUMED keep the owner; every other status has no owner
  (the record written at registration may carry the registering client's id);
* a refused request changes nothing.
"""

from __future__ import annotations

import re
from collections import deque

import os

SVG = os.path.join(os.environ.get("VERIF_REPO", "/repo"), "docs/_static/invocation_state_machine.svg")

ALL = [
    "REGISTERED", "CONCURRENCY_CONTROLLED", "CONCURRENCY_CONTROLLED_FINAL", "REROUTED",
    "PENDING", "PENDING_RECOVERY", "RUNNING", "RUNNING_RECOVERY", "PAUSED", "RESUMED",
    "KILLED", "SUCCESS", "FAILED", "RETRY",
]
FINALS = {"SUCCESS", "FAILED", "CONCURRENCY_CONTROLLED_FINAL"}
OWNED = {"PENDING", "RUNNING", "PAUSED", "RESUMED"}
RECOVERY = {"PENDING_RECOVERY", "RUNNING_RECOVERY"}
# statuses in which an invocation can be picked up from the queue
AVAILABLE = {"REGISTERED", "REROUTED", "RETRY"}

State = "tuple[str, str | None] | None"


def load_edges(svg_path: str = SVG) -> set[tuple[str, str]]:
    with open(svg_path, encoding="utf-8") as f:
        text = f.read()
    edges = set()
    for m in re.finditer(r'data-edge="([A-Z_]+)->([A-Z_]+)"', text):
        edges.add((m.group(1), m.group(2)))
    if ("START", "REGISTERED") not in edges or len(edges) < 20:
        raise RuntimeError(f"documented lifecycle graph not found in {svg_path}")
    return edges


class Lifecycle:
    def __init__(self, svg_path: str = SVG) -> None:
        self.edges = load_edges(svg_path)
        for a, b in self.edges:
            if a != "START" and a not in ALL or b not in ALL:
                raise RuntimeError(f"unknown status in documented edge {a}->{b}")
        for f in FINALS:
            if any(a == f for a, _ in self.edges):
                raise RuntimeError(f"documentation lets final status {f} be left")

    def has_edge(self, a: str | None, b: str) -> bool:
        return ((a or "START"), b) in self.edges

    def step(self, cur, req: str, requester: str | None):
        """-> ("ok", (status, owner)) | ("transition", None) | ("ownership", None)"""
        cur_status = cur[0] if cur else None
        if not self.has_edge(cur_status, req):
            return ("transition", None)
        if cur is not None:
            if cur_status in OWNED and req not in RECOVERY and requester != cur[1]:
                return ("ownership", None)
            if req == "PENDING" and not requester:
                return ("ownership", None)
        if req == "PENDING":
            owner = requester
        elif req in OWNED:
            owner = cur[1] if cur else None
        else:
            owner = None
        return ("ok", (req, owner))

    def reachable(self, registrar: str, requesters: list[str | None]):
        """BFS over (status, owner) from a freshly registered invocation.
        Returns {state: path} with path = [(req, requester), ...]."""
        start = ("REGISTERED", registrar)
        paths = {start: []}
        dq = deque([start])
        while dq:
            s = dq.popleft()
            for req in ALL:
                for who in requesters:
                    out, nxt = self.step(s, req, who)
                    if out == "ok" and nxt not in paths:
                        paths[nxt] = paths[s] + [(req, who)]
                        dq.append(nxt)
        return paths

    def is_path(self, statuses: list[str]) -> int:
        """index of the first illegal step (from START), or -1 if it is a path."""
        prev = None
        for i, s in enumerate(statuses):
            if not self.has_edge(prev, s):
                return i
            prev = s
        return -1
