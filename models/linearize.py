"""Small Wing-Gong linearizability checker against a sequential model.

history: list of ops {"id", "inv": int, "ret": int, "op": str, "arg": ..., "res": ...}
model:   object with .copy() and .apply(op, arg) -> result
An op a precedes b iff a.ret < b.inv (global event sequence numbers, never
coarse simulated time).
"""

from __future__ import annotations

from typing import Any


class FifoModel:
    def __init__(self, items: list | None = None) -> None:
        self.q: list = list(items or [])

    def copy(self) -> "FifoModel":
        return FifoModel(self.q)

    def key(self) -> tuple:
        return tuple(self.q)

    def apply(self, op: str, arg: Any) -> Any:
        if op == "route":
            self.q.append(arg)
            return None
        if op == "route_batch":
            self.q.extend(arg)
            return None
        if op == "retrieve":
            return self.q.pop(0) if self.q else None
        if op == "count":
            return len(self.q)
        if op == "purge":
            self.q.clear()
            return None
        raise ValueError(op)


def linearizable(history: list[dict], model: Any, max_nodes: int = 200_000) -> tuple[bool | None, list | None]:
    """Returns (True, order) / (False, None) / (None, None) if the budget ran out."""
    ops = sorted(history, key=lambda o: o["inv"])
    n = len(ops)
    idx = {o["id"]: i for i, o in enumerate(ops)}
    seen: set = set()
    nodes = 0

    def rec(done: frozenset, m: Any, order: list) -> Any:
        nonlocal nodes
        if len(done) == n:
            return order
        k = (done, m.key())
        if k in seen:
            return None
        seen.add(k)
        nodes += 1
        if nodes > max_nodes:
            raise TimeoutError
        # minimal ops: not done, and no other not-done op returned before they were invoked
        pending = [i for i in range(n) if i not in done]
        min_ret = min(ops[i]["ret"] for i in pending)
        for i in pending:
            if ops[i]["inv"] > min_ret:
                continue
            after = ops[i].get("after")
            if after is not None and idx[after] not in done:
                continue  # program order inside one non-atomic batch
            m2 = m.copy()
            if m2.apply(ops[i]["op"], ops[i].get("arg")) == ops[i].get("res"):
                r = rec(done | {i}, m2, order + [ops[i]["id"]])
                if r is not None:
                    return r
        return None

    try:
        r = rec(frozenset(), model, [])
    except TimeoutError:
        return None, None
    return (r is not None), r
