"""workloads.deploy -- a simulated deployment: client + ThreadRunner actors.

Used by every engine-B check that needs the *real* runner loop
(`BaseRunner.run` -> `ThreadRunner.runner_loop_iteration` -> worker threads ->
`DistributedInvocation.run`).  In-memory family: one process image, so one
shared Pynenc object and exactly one runner.  SQLite family: every actor has
its own Pynenc object (and its own ThreadRunner) on one database file.
"""

from __future__ import annotations

from typing import Any, Callable

from simkit import core
from simkit.world import World
from workloads import simtasks


class SimProcess:
    """Stand-in for multiprocessing.Process inside a Deployment: `start()` boots a fresh simulated process (an
    actor with its own Pynenc object on the shared database, as a spawned child gets an unpickled copy) whose
    main thread runs the real worker main.  SIGKILL = `sim.crash_actor`, SIGTERM = the handler the worker
    installed runs in its main thread at its next yield point (and may raise there, like a real signal)."""

    deployment: "Deployment | None" = None

    def __init__(self, group: Any = None, target: Any = None, name: Any = None, args: Any = (), kwargs: dict | None = None, *, daemon: Any = None) -> None:
        self.target = target
        self.args = tuple(args)
        self.kwargs = dict(kwargs or {})
        self.daemon = daemon
        self.pid: int | None = None
        self.exitcode: int | None = None
        self.actor: Any = None
        self.thread: Any = None
        self.name = name

    def start(self) -> None:
        d = SimProcess.deployment
        assert d is not None
        actor_name = d.next_worker_actor()
        if actor_name is None:
            d.pool_exhausted = True
            raise OSError("simulated process table is full")
        sim = d.sim
        self.actor = sim.actor(actor_name)
        kwargs = dict(self.kwargs)
        if "app" in kwargs:
            kwargs["app"] = d.w.apps[actor_name]
        self.pid = self.actor.pid
        self.name = actor_name
        d.worker_procs[actor_name] = self
        self.thread = core.SimThread(target=self.target, args=self.args, kwargs=kwargs, name=f"{actor_name}/main", _actor=self.actor)
        self.thread.start()

    def is_alive(self) -> bool:
        return self.thread is not None and not self.actor.dead and self.thread.state != core.DONE

    def kill(self) -> None:
        if self.actor is not None and self.is_alive():
            self.exitcode = -9
            core.CURRENT.crash_actor(self.actor, "SIGKILL from parent")  # type: ignore[union-attr]

    def terminate(self) -> None:
        if self.actor is None or not self.is_alive():
            return
        h = self.actor.signal_handlers.get(15)
        if callable(h):
            self.actor.pending_calls.append(lambda: h(15, None))
        else:
            self.exitcode = -15
            core.CURRENT.crash_actor(self.actor, "SIGTERM (default action)")  # type: ignore[union-attr]

    def join(self, timeout: float | None = None) -> None:
        if self.thread is not None:
            self.thread.join(timeout)


class SimManager:
    def dict(self, *a: Any, **k: Any) -> dict:
        return dict(*a, **k)

    def Event(self) -> Any:  # noqa: N802
        return core.SimEvent()

    def shutdown(self) -> None:
        return None


class Deployment:
    def __init__(
        self,
        seed: int,
        stack: str,
        n_runners: int = 1,
        *,
        clients: list[str] | None = None,
        services: bool = False,
        conf: dict | None = None,
        ppr: dict[str, int] | None = None,
        **world_kw: Any,
    ) -> None:
        """ppr = {runner name: number of worker processes}: that runner is a PersistentProcessRunner whose
        workers are simulated processes (SQLite stack only); the others are ThreadRunners."""
        from pynenc.runner.thread_runner import ThreadRunner

        if stack == "mem":
            n_runners = 1
            ppr = None
        self.ppr = dict(ppr or {})
        self.clients = clients or ["c"]
        self.runner_names = [f"r{i + 1}" for i in range(n_runners)]
        self.worker_pool: list[str] = []
        self.worker_procs: dict[str, SimProcess] = {}
        self._patched: list[tuple[Any, str, Any]] = []
        for rn, n_w in self.ppr.items():
            self.worker_pool += [f"{rn}w{i + 1}" for i in range(n_w + 8)]
        self.pool_exhausted = False
        base_conf = {"cached_status_time": 0.0, "runner_loop_sleep_time_sec": 0.01, "invocation_wait_results_sleep_time_sec": 0.01, "max_threads": 2}
        base_conf.update(conf or {})
        self.w = World(seed, stack, self.runner_names + self.worker_pool + self.clients, conf=base_conf, **world_kw)
        self.sim = self.w.sim
        self.stack = stack
        self.runners: dict[str, Any] = {}
        for name in self.runner_names:
            app = self.w.apps[name]
            self.sim.seq_actor = self.sim.actor(name)  # type: ignore[attr-defined]
            if name in self.ppr:
                r = self._make_ppr(app, self.ppr[name])
            else:
                r = ThreadRunner(app)
            if not services:
                # atomic global services (trigger loop, recovery crons) off unless asked for:
                # pretend the last check just happened
                r._last_atomic_service_check_time = float("inf")
            self.runners[name] = r
        for wn in self.worker_pool:
            # the image of a worker process: its own app object with a runner object of the parent's class
            self.sim.seq_actor = self.sim.actor(wn)  # type: ignore[attr-defined]
            self._make_ppr(self.w.apps[wn], 1)
        self.sim.seq_actor = None  # type: ignore[attr-defined]
        if stack == "mem":
            # the clients share the process image: app.runner is the one runner
            pass
        else:
            for c in self.clients:
                # a client process has a runner object only as a waiting helper
                self.w.apps[c].runner  # noqa: B018  instantiate before the scheduled phase
        simtasks.reset()
        simtasks.SLEEP = self._sleep
        self.tasks: dict[str, dict[str, Any]] = {}

    def _make_ppr(self, app: Any, n_workers: int) -> Any:
        import pynenc.runner.persistent_process_runner as ppr_mod

        if not self._patched:
            for attr, repl in (("Process", SimProcess), ("Manager", SimManager), ("warn_missing_main_guard", lambda: None)):
                self._patched.append((ppr_mod, attr, getattr(ppr_mod, attr)))
                setattr(ppr_mod, attr, repl)
            SimProcess.deployment = self
        app.conf.runner_cls = "PersistentProcessRunner"
        r = ppr_mod.PersistentProcessRunner(app)
        r._ensure_spawn_start_method = lambda: None  # type: ignore[method-assign]
        r.conf.num_processes = n_workers
        r.conf.min_parallel_slots = 1
        return r

    def next_worker_actor(self) -> str | None:
        for wn in self.worker_pool:
            if wn not in self.worker_procs:
                return wn
        return None

    def _sleep(self, seconds: float) -> None:
        self.sim.check_alive()
        self.sim.sleep(seconds)
        self.sim.check_alive()

    def register(self, func: Callable, **options: Any) -> dict[str, Any]:
        t = self.w.register(func, **options)
        self.tasks[func.__name__] = t
        return t

    def task(self, actor: str, name: str) -> Any:
        return self.tasks[name][actor]

    def app(self, actor: str) -> Any:
        return self.w.apps[actor]

    def status(self, actor: str, inv_id: str) -> str:
        return self.app(actor).orchestrator.get_invocation_status(inv_id).name

    def stop_runners(self) -> None:
        """Orderly end of a scenario: let every runner loop fall out of `while running`."""
        for r in self.runners.values():
            r.running = False

    def wait_final(self, actor: str, inv_ids: list[str], timeout: float, poll: float = 0.02) -> bool:
        """Client-side polling in virtual time (no pynenc waiting machinery)."""
        orch = self.app(actor).orchestrator
        deadline = self.sim.now + timeout
        while True:
            if all(orch.get_invocation_status(i).is_final() for i in inv_ids):
                return True
            if self.sim.now >= deadline:
                return False
            self.sim.sleep(poll)

    def run(self, client_fns: dict[str, Callable[[], Any]], extra: list[tuple[str, str, Callable]] | None = None) -> None:
        mains: list[tuple[str, str, Callable]] = []
        for c in self.clients:
            mains.append((c, "main", client_fns[c]))
        for name, r in self.runners.items():
            mains.append((name, "main", r.run))
        mains.extend(extra or [])
        try:
            self.w.run(mains)
        finally:
            simtasks.SLEEP = None

    def close(self) -> None:
        for mod, attr, val in reversed(self._patched):
            setattr(mod, attr, val)
        self._patched.clear()
        if SimProcess.deployment is self:
            SimProcess.deployment = None
        self.worker_procs.clear()
        self.runners.clear()
        self.tasks.clear()
        self.w.close()

    def __enter__(self) -> "Deployment":
        return self

    def __exit__(self, *a: Any) -> None:
        self.close()


def check_history(w: World, lifecycle: Any, apps: list[Any]) -> list[tuple[str, str]]:
    """C10 oracle: stored history == transition log, per invocation.

    * multiset equality on (status, owner, record time, writing runner);
    * ordered by the *record's* time it is a path REGISTERED -> current status;
    * nothing attributed to another invocation.
    Call after all history writers have finished.
    """
    out: list[tuple[str, str]] = []
    by_inv: dict[str, list[dict]] = {}
    for e in w.tlog:
        by_inv.setdefault(e["inv"], []).append(e)
    app = apps[0]
    for inv, evs in by_inv.items():
        hist = app.state_backend.get_history(inv)
        got = sorted((h.status_record.status.name, h.status_record.runner_id, round(h.status_record.timestamp.timestamp(), 6), h.runner_context_id) for h in hist)
        want = sorted((e["status"], e["owner"], round(e["ts"], 6), e["requester"]) for e in evs)
        for h in hist:
            if str(h.invocation_id) != inv:
                out.append(("foreign-entry", f"history of {w.alias(inv)} contains an entry of {w.alias(str(h.invocation_id))}"))
        if got != want:
            missing = [x for x in want if x not in got]
            extra = [x for x in got if x not in want]
            dup = len(got) != len(set(got))
            if missing:
                out.append((f"missing/{missing[0][0]}", f"{w.alias(inv)}: status change(s) {missing} have no history entry; stored history: {[g[0] for g in got]}"))
            if extra:
                kind = "duplicate" if dup else "extra"
                out.append((f"{kind}/{extra[0][0]}", f"{w.alias(inv)}: history entries {extra} match no successful status change; transition log: {[x[0] for x in want]}"))
            if not missing and not extra:
                out.append(("multiset-differs", f"{w.alias(inv)}: history {got} vs transitions {want}"))
            continue
        # stored order (the entries' own timestamps: what get_history sorts by, what the monitor shows)
        # must respect happens-before: if the hand-over of change c1 returned before change c2 was made,
        # c1's entry must not carry a later timestamp than c2's
        ret_of = {round(c["ts"], 6): c["ret"] for c in w.hist_calls if c["inv"] == inv}
        seq_of = {round(e["ts"], 6): e["seq"] for e in evs}
        ent = sorted(((round(h.status_record.timestamp.timestamp(), 6), h.timestamp.timestamp(), h.status_record.status.name) for h in hist))
        for a in range(len(ent)):
            for b in range(a + 1, len(ent)):
                r1, s2 = ret_of.get(ent[a][0]), seq_of.get(ent[b][0])
                if r1 is not None and s2 is not None and r1 <= s2 and ent[a][1] > ent[b][1]:
                    out.append((f"entry-order-inverted/{ent[a][2]}-after-{ent[b][2]}", f"{w.alias(inv)}: the history entry of {ent[a][2]} carries timestamp {ent[a][1]:.6f}, later than the entry of the subsequent change {ent[b][2]} ({ent[b][1]:.6f}), although {ent[a][2]} had been handed to the history before {ent[b][2]} happened: get_history (ordered by entry time) shows {[x[2] for x in sorted(ent, key=lambda x: x[1])]}"))
                    break
            else:
                continue
            break
        seq = [h.status_record.status.name for h in sorted(hist, key=lambda h: h.status_record.timestamp)]
        bad = lifecycle.is_path(seq)
        if bad >= 0:
            out.append((f"not-a-path/{seq[bad - 1] if bad else 'START'}->{seq[bad]}", f"{w.alias(inv)}: history ordered by time of change is not a lifecycle path: {seq}"))
        try:
            cur = app.orchestrator.get_invocation_status(inv).name
            if seq and seq[-1] != cur:
                out.append((f"stops-short/{seq[-1]}-vs-{cur}", f"{w.alias(inv)}: history ends at {seq[-1]} but the current status is {cur}"))
        except KeyError:
            pass
    return out
