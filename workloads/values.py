"""Seeded recursive value generators restricted to each serializer's lossless domain.

JSON      : None, bool, int, finite float, str, list, str-keyed dict, Enum,
            JsonSerializable objects, exceptions with scalar args
jsonpickle: additionally tuples, frozensets of hashables, bytes
pickle    : additionally dicts with non-str keys (jsonpickle's default encoding
            stringifies keys, so they are outside its lossless domain)
Strings beginning with the reserved client-data prefix are *not* generated here
(see C15, which owns that case).
"""

from __future__ import annotations

import enum
import random
from typing import Any


class Color(enum.Enum):
    RED = "red"
    GREEN = 2


class Level(enum.IntEnum):
    LOW = 1
    HIGH = 9


class Money:
    """JsonSerializable example object with value equality."""

    def __init__(self, amount: int, currency: str) -> None:
        self.amount = amount
        self.currency = currency

    def to_json(self) -> dict:
        return {"amount": self.amount, "currency": self.currency}

    @classmethod
    def from_json(cls, data: dict) -> "Money":
        return cls(data["amount"], data["currency"])

    def __eq__(self, other: Any) -> bool:
        return isinstance(other, Money) and (self.amount, self.currency) == (other.amount, other.currency)

    def __hash__(self) -> int:
        return hash((self.amount, self.currency))

    def __repr__(self) -> str:
        return f"Money({self.amount!r}, {self.currency!r})"


class AppError(Exception):
    """Module-level custom exception (reconstructible by module + qualname)."""


STRINGS = ["", "a", "héllo wörld", "日本語", "emoji 🚀", "line\nbreak\ttab", 'quote"s\\back', "nul\x00byte", " ", "=;,:", "null", "0", "__pynenc__", "{\"k\": 1}"]
FLOATS = [0.0, -0.0, 1.5, -2.25, 1e-9, 1e300, 3.141592653589793, 0.1, 2**53 + 0.0]
INTS = [0, 1, -1, 7, 255, -(2**31), 2**63, 10**30]


def scalar(rng: random.Random, dom: str) -> Any:
    r = rng.random()
    if r < 0.1:
        return None
    if r < 0.2:
        return rng.random() < 0.5
    if r < 0.4:
        return rng.choice(INTS)
    if r < 0.55:
        return rng.choice(FLOATS)
    if r < 0.85:
        return rng.choice(STRINGS) + (rng.choice(STRINGS) if rng.random() < 0.3 else "")
    if r < 0.9:
        return rng.choice([Color.RED, Color.GREEN, Level.LOW, Level.HIGH])
    if r < 0.95:
        return Money(rng.choice(INTS[:5]), rng.choice(["EUR", "¥"]))
    if dom != "json":
        return rng.choice([b"", b"\x00\xff", b"bytes"])
    return rng.choice(STRINGS)


NO_SETS = {"on": False}  # set by callers that need a canonical serialised form


def value(rng: random.Random, dom: str, depth: int = 3, size: int | None = None, sets: bool = True) -> Any:
    """A value of the domain; `size` pads it with a long string so that the
    serialized form straddles the externalisation threshold."""
    NO_SETS["on"] = not sets
    try:
        v = _value(rng, dom, depth)
    finally:
        NO_SETS["on"] = False
    if size:
        pad = "x" * size
        v = {"pad": pad, "v": v} if rng.random() < 0.5 else [pad, v]
    return v


def _value(rng: random.Random, dom: str, depth: int) -> Any:
    if depth <= 0 or rng.random() < 0.35:
        return scalar(rng, dom)
    r = rng.random()
    n = rng.randint(0, 3)
    if r < 0.4:
        return [_value(rng, dom, depth - 1) for _ in range(n)]
    if r < 0.8:
        return {rng.choice(["k", "key two", "ü", "0", ""]) + str(i): _value(rng, dom, depth - 1) for i in range(n)}
    if dom == "json":
        return [_value(rng, dom, depth - 1) for _ in range(n)]
    if r < 0.9:
        return tuple(_value(rng, dom, depth - 1) for _ in range(n))
    if r < 0.95 and dom == "py":
        # non-str dict keys: pickle only (jsonpickle's default encoding turns keys into strings)
        return {i: _value(rng, dom, depth - 1) for i in range(n)}
    if NO_SETS["on"]:
        # equal sets may iterate (and therefore serialise) in different orders: not canonical
        return tuple(rng.choice(INTS) for _ in range(n))
    return frozenset(rng.choice(INTS) for _ in range(n))


def exception(rng: random.Random, dom: str, size: int | None = None) -> Exception:
    """`size` adds a long string argument so that the serialized exception is externalised."""
    args = tuple(rng.choice([rng.choice(INTS[:6]), rng.choice(STRINGS), None, 1.5]) for _ in range(rng.randint(0, 3)))
    if size:
        args = args + ("e" * size,)
    cls = rng.choice([ValueError, KeyError, RuntimeError, ZeroDivisionError, AppError, AppError])
    return cls(*args)


def domain_of(serializer_cls: str) -> str:
    return {"JsonSerializer": "json", "JsonPickleSerializer": "jp"}.get(serializer_cls, "py")


def same_exception(a: BaseException, b: BaseException) -> bool:
    return type(a) is type(b) and a.args == b.args
