"""Module-level task bodies for the simulator (pynenc refuses nested functions).

Behaviour is determined entirely by the JSON-able arguments generated per run;
bodies report enter/exit/attempts to the harness through `PROBE` (side channel
keyed by invocation id) and count attempts per program node in `ATTEMPTS`.
"""

from __future__ import annotations

import time as _time
from typing import Any

from pynenc import context
from pynenc.exceptions import RetryError

PROBE: Any = None  # callable(event, invocation_id, payload) set by the harness
GLOBAL_APP: Any = None  # fallback app for sync mode (no runner thread sets the context)
ATTEMPTS: dict[str, int] = {}  # executions per program node name
INV_ATTEMPTS: dict[str, int] = {}  # executions per invocation (the attempt number a body sees)
SLEEP: Any = None  # callable(seconds) -> simulated work


class SimError(Exception):
    """A non-retriable application error raised by scripted bodies."""


class SimRetriable(Exception):
    """An application error that tasks may list in retry_for."""


class SimRetriableSub(SimRetriable):
    """A strict subclass of a class listed in retry_for (retry_for matches like `except`: subclasses included)."""


class SimRetrySub(RetryError):
    """A strict subclass of the default retriable exception."""


def reset() -> None:
    ATTEMPTS.clear()
    INV_ATTEMPTS.clear()


def _attempt(task_name: str, node: str) -> int:
    """Counts one execution of `node`; returns the attempt number *of this
    invocation* (1 on first execution, 2 after one retry, ...)."""
    ATTEMPTS[node] = ATTEMPTS.get(node, 0) + 1
    key = _inv_id(task_name) or f"?{node}"
    INV_ATTEMPTS[key] = INV_ATTEMPTS.get(key, 0) + 1
    return INV_ATTEMPTS[key]


def _app() -> Any:
    return context.get_current_app() or GLOBAL_APP


def _self_task(name: str) -> Any:
    from pynenc.identifiers.task_id import TaskId

    return _app()._tasks[TaskId(__name__, name)]


def _inv_id(name: str) -> str | None:
    try:
        return str(_self_task(name).invocation.invocation_id)
    except Exception:  # noqa: BLE001
        pass
    try:  # the body may be running as another task (prog2 shares prog's body)
        app = _app()
        inv = context.get_dist_invocation_context(app.app_id) or context._get_sync_inv_context_storage().get(app.app_id)
        return str(inv.invocation_id) if inv is not None else None
    except Exception:  # noqa: BLE001
        return None


def _probe(ev: str, name: str, payload: Any = None) -> None:
    if PROBE is not None:
        PROBE(ev, _inv_id(name), payload)


def _work(seconds: float) -> None:
    if seconds and seconds > 0:
        if SLEEP is not None:
            SLEEP(seconds)
        else:
            _time.sleep(seconds)


def add(x: int, y: int) -> int:
    _probe("enter", "add", (x, y))
    r = x + y
    _probe("exit", "add", r)
    return r


def _make_exc(kind: str, node: str, attempt: int) -> Exception:
    if kind == "retry":
        return RetryError()
    if kind == "retriable":
        return SimRetriable(node, attempt)
    if kind == "retriable-sub":
        return SimRetriableSub(node, attempt)
    if kind == "retry-sub":
        return SimRetrySub()
    if kind == "value":
        return ValueError(f"{node}#{attempt}")
    return SimError(node, attempt)


def prog(spec: dict) -> int:
    """General program node.

    spec = {"n": name, "v": int, "kids": [spec...], "group": bool, "work": float,
            "fail": [attempt numbers that raise], "exc": "retry"|"retriable"|"value"|"sim",
            "fail_after_kids": bool}
    Returns v + sum(kids).  `fail` lists the attempt numbers *of one invocation*
    that raise (every new invocation of the node starts again at attempt 1).
    """
    node = str(spec.get("n", "?"))
    attempt = _attempt("prog", node)
    _probe("enter", "prog", (node, attempt))
    try:
        _work(float(spec.get("work", 0) or 0))
        fails = spec.get("fail") or []
        if attempt in fails and not spec.get("fail_after_kids"):
            raise _make_exc(spec.get("exc", "retry"), node, attempt)
        total = int(spec.get("v", 0))
        kids = spec.get("kids") or []
        if kids:
            if spec.get("group"):
                # a group is one task: the one named by the first kid
                t = _self_task(_task_name(kids[0]))
                total += sum(t.parallelize([(k,) for k in kids]).results)
            else:
                invs = [_self_task(_task_name(k))(k) for k in kids]
                for inv in invs:
                    total += inv.result
        if attempt in fails:
            raise _make_exc(spec.get("exc", "retry"), node, attempt)
        return total
    finally:
        _probe("exit", "prog", (node, attempt))


def _task_name(spec: dict) -> str:
    """Which registered task executes this node: "prog" or "prog2" (same body, different task id,
    so that a sub-task need not be the main task of its workflow)."""
    return "prog2" if spec.get("t") == 2 and _has_task("prog2") else "prog"


def _has_task(name: str) -> bool:
    from pynenc.identifiers.task_id import TaskId

    return TaskId(__name__, name) in _app()._tasks


def prog2(spec: dict) -> int:
    """Second task with the body of `prog`."""
    return prog(spec)


def tree(spec: dict) -> int:
    """spec = {"v": int, "kids": [spec...], "group": bool}; v + sum(kids)."""
    _probe("enter", "tree", spec.get("v"))
    t = _self_task("tree")
    total = int(spec.get("v", 0))
    kids = spec.get("kids") or []
    if kids:
        if spec.get("group"):
            total += sum(t.parallelize([(k,) for k in kids]).results)
        else:
            invs = [t(k) for k in kids]
            for inv in invs:
                total += inv.result
    _probe("exit", "tree", total)
    return total


def keyed(key: Any, other: Any = 0, work: float = 0.0) -> Any:
    """Body of the concurrency-control tasks: holds RUNNING for `work` seconds."""
    _probe("enter", "keyed", (key, other))
    try:
        _work(work)
        return [key, other]
    finally:
        _probe("exit", "keyed", (key, other))


def keyed2(a: Any, b: Any = 0, c: Any = 0, work: float = 0.0, retry: int = 0) -> Any:
    """Three-argument variant (key argument subsets); the first `retry`
    executions of one invocation raise RetryError after the work."""
    inv = _inv_id("keyed2") or f"{a}.{b}.{c}"
    ATTEMPTS[inv] = attempt = ATTEMPTS.get(inv, 0) + 1
    _probe("enter", "keyed2", (a, b, c, attempt))
    try:
        _work(work)
        if attempt <= retry:
            raise RetryError()
        return [a, b, c]
    finally:
        _probe("exit", "keyed2", (a, b, c, attempt))


VALUES: dict[str, Any] = {}  # token -> python value / exception to return or raise


def value(token: str, work: float = 0.0) -> Any:
    """Returns (or raises) the object the harness stored under `token`."""
    _probe("enter", "value", token)
    try:
        _work(work)
        v = VALUES[token]
        if isinstance(v, BaseException):
            raise v
        return v
    finally:
        _probe("exit", "value", token)


def echo(**kwargs: Any) -> Any:
    """Returns its keyword arguments as the worker saw them."""
    _probe("enter", "echo", sorted(kwargs))
    _probe("exit", "echo", None)
    return kwargs


def sig(a: Any, b: Any = 2, *, c: Any = 3, d: Any = None) -> Any:
    """A signature with defaults and keyword-only parameters (call spellings)."""
    return [a, b, c, d]


# ----------------------------------------------------------------------------- direct-task flavours (C19)
DIRECT: dict[int, dict[str, Any]] = {}  # id(app) -> {"dprog": wrapper, "dsum": wrapper}


def dprog(spec: dict) -> int:
    """Like `prog`, but sub-programs are called through the direct-task wrapper
    (which returns the plain value)."""
    node = str(spec.get("n", "?"))
    attempt = _attempt("dprog", node)
    _probe("enter", "dprog", (node, attempt))
    try:
        fails = spec.get("fail") or []
        if attempt in fails:
            raise _make_exc(spec.get("exc", "retry"), node, attempt)
        call = DIRECT[id(_app())]["dprog"]
        total = int(spec.get("v", 0))
        for k in spec.get("kids") or []:
            total += call(k)
        return total
    finally:
        _probe("exit", "dprog", (node, attempt))


def dleaf(spec: dict) -> int:
    """Leaf body of the parallel direct task: returns its own value."""
    node = str(spec.get("n", "?"))
    attempt = _attempt("dleaf", node)
    fails = spec.get("fail") or []
    if attempt in fails:
        raise _make_exc(spec.get("exc", "retry"), node, attempt)
    return int(spec.get("v", 0))


def dleaf_split(args: dict) -> list:
    """parallel_func of the direct parallel task: one call per kid."""
    return [(k,) for k in args["spec"].get("kids") or []]


# ----------------------------------------------------------------------------- workflow scripts (C18)
WF_LOG: list[dict] = []  # one entry per execution: {"inv", "workflow", "attempt", "values", "complete"}


def wf_script(script: dict) -> int:
    """Issues a generated sequence of deterministic workflow operations.

    script = {"n": name, "ops": ["random" | "time" | "uuid" | ["task", x, y], ...],
              "fail_at": {"<attempt>": index}}   -> RetryError before op `index` on that attempt
    Every execution appends the values it saw to WF_LOG."""
    t = _self_task("wf_script")
    inv = t.invocation
    attempt = _attempt("wf_script", str(script.get("n", "?")))
    entry = {"inv": str(inv.invocation_id), "workflow": str(inv.workflow.workflow_id), "name": script.get("n"), "attempt": attempt, "values": [], "complete": False}
    WF_LOG.append(entry)
    fail_at = (script.get("fail_at") or {}).get(str(attempt))
    for idx, op in enumerate(script["ops"]):
        if fail_at is not None and idx == fail_at:
            raise RetryError()
        if op == "random":
            entry["values"].append(["random", t.wf.random()])
        elif op == "time":
            entry["values"].append(["time", t.wf.utc_now().isoformat()])
        elif op == "uuid":
            entry["values"].append(["uuid", t.wf.uuid()])
        elif op[0] == "nested":
            # a plain call of the same task from inside the workflow; when the task is declared with
            # force_new_workflow the callee is a workflow of its own
            entry["values"].append(["nested", t(op[1]).result])
        else:
            sub = t.wf.execute_task(_self_task("add"), op[1], op[2])
            entry["values"].append(["task", str(sub.invocation_id)])
        _work(0.001)
    entry["complete"] = True
    return len(entry["values"])


# ----------------------------------------------------------------------------- trigger argument callbacks (C13)
def args_from_event(ctx: Any) -> dict:
    """Argument provider callback: forwards the occurrence's unique token."""
    return {"x": ctx.payload.get("tok", -1), "y": 0}


def args_from_status(ctx: Any) -> dict:
    return {"x": str(ctx.invocation_id), "y": 0}


def source(tok: int) -> int:
    """A task whose completions are occurrences for status/result conditions."""
    return tok
