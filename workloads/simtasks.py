"""Module-level task bodies for the simulator (pynenc refuses nested functions).

Behaviour is determined entirely by the JSON-able arguments generated per run;
bodies report enter/exit/attempts to the harness through `PROBE` (side channel
keyed by invocation id) and count attempts per program node in `ATTEMPTS`.
"""

from __future__ import annotations

import time as _time
from typing import Any

from pynenc import context
from pynenc.exceptions import RetryError

PROBE: Any = None  # callable(event, invocation_id, payload) set by the harness
GLOBAL_APP: Any = None  # fallback app for sync mode (no runner thread sets the context)
ATTEMPTS: dict[str, int] = {}  # executions per program node name
SLEEP: Any = None  # callable(seconds) -> simulated work


class SimError(Exception):
    """A non-retriable application error raised by scripted bodies."""


class SimRetriable(Exception):
    """An application error that tasks may list in retry_for."""


def reset() -> None:
    ATTEMPTS.clear()


def _app() -> Any:
    return context.get_current_app() or GLOBAL_APP


def _self_task(name: str) -> Any:
    from pynenc.identifiers.task_id import TaskId

    return _app()._tasks[TaskId(__name__, name)]


def _inv_id(name: str) -> str | None:
    try:
        return str(_self_task(name).invocation.invocation_id)
    except Exception:  # noqa: BLE001
        return None


def _probe(ev: str, name: str, payload: Any = None) -> None:
    if PROBE is not None:
        PROBE(ev, _inv_id(name), payload)


def _work(seconds: float) -> None:
    if seconds and seconds > 0:
        if SLEEP is not None:
            SLEEP(seconds)
        else:
            _time.sleep(seconds)


def add(x: int, y: int) -> int:
    _probe("enter", "add", (x, y))
    r = x + y
    _probe("exit", "add", r)
    return r


def _make_exc(kind: str, node: str, attempt: int) -> Exception:
    if kind == "retry":
        return RetryError()
    if kind == "retriable":
        return SimRetriable(node, attempt)
    if kind == "value":
        return ValueError(f"{node}#{attempt}")
    return SimError(node, attempt)


def prog(spec: dict) -> int:
    """General program node.

    spec = {"n": name, "v": int, "kids": [spec...], "group": bool, "work": float,
            "fail": [attempt numbers that raise], "exc": "retry"|"retriable"|"value"|"sim",
            "fail_after_kids": bool}
    Returns v + sum(kids).  The n-th execution of node `n` is attempt n.
    """
    node = str(spec.get("n", "?"))
    ATTEMPTS[node] = attempt = ATTEMPTS.get(node, 0) + 1
    _probe("enter", "prog", (node, attempt))
    try:
        _work(float(spec.get("work", 0) or 0))
        fails = spec.get("fail") or []
        if attempt in fails and not spec.get("fail_after_kids"):
            raise _make_exc(spec.get("exc", "retry"), node, attempt)
        t = _self_task("prog")
        total = int(spec.get("v", 0))
        kids = spec.get("kids") or []
        if kids:
            if spec.get("group"):
                total += sum(t.parallelize([(k,) for k in kids]).results)
            else:
                invs = [t(k) for k in kids]
                for inv in invs:
                    total += inv.result
        if attempt in fails:
            raise _make_exc(spec.get("exc", "retry"), node, attempt)
        return total
    finally:
        _probe("exit", "prog", (node, attempt))


def tree(spec: dict) -> int:
    """spec = {"v": int, "kids": [spec...], "group": bool}; v + sum(kids)."""
    _probe("enter", "tree", spec.get("v"))
    t = _self_task("tree")
    total = int(spec.get("v", 0))
    kids = spec.get("kids") or []
    if kids:
        if spec.get("group"):
            total += sum(t.parallelize([(k,) for k in kids]).results)
        else:
            invs = [t(k) for k in kids]
            for inv in invs:
                total += inv.result
    _probe("exit", "tree", total)
    return total


def keyed(key: Any, other: Any = 0, work: float = 0.0) -> Any:
    """Body of the concurrency-control tasks: holds RUNNING for `work` seconds."""
    _probe("enter", "keyed", (key, other))
    try:
        _work(work)
        return [key, other]
    finally:
        _probe("exit", "keyed", (key, other))


def keyed2(a: Any, b: Any = 0, c: Any = 0, work: float = 0.0) -> Any:
    """Three-argument variant (key argument subsets)."""
    _probe("enter", "keyed2", (a, b, c))
    try:
        _work(work)
        return [a, b, c]
    finally:
        _probe("exit", "keyed2", (a, b, c))


VALUES: dict[str, Any] = {}  # token -> python value / exception to return or raise


def value(token: str, work: float = 0.0) -> Any:
    """Returns (or raises) the object the harness stored under `token`."""
    _probe("enter", "value", token)
    try:
        _work(work)
        v = VALUES[token]
        if isinstance(v, BaseException):
            raise v
        return v
    finally:
        _probe("exit", "value", token)


def echo(**kwargs: Any) -> Any:
    """Returns its keyword arguments as the worker saw them."""
    _probe("enter", "echo", sorted(kwargs))
    _probe("exit", "echo", None)
    return kwargs


def sig(a: Any, b: Any = 2, *, c: Any = 3, d: Any = None) -> Any:
    """A signature with defaults and keyword-only parameters (call spellings)."""
    return [a, b, c, d]
