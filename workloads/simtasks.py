"""Module-level task bodies for the simulator (pynenc refuses nested functions).

Behaviour is determined by the JSON-able arguments generated per run; bodies
report enter/exit to the harness through `PROBE` (side channel keyed by
invocation id).
"""

from __future__ import annotations

from typing import Any

from pynenc import context

PROBE: Any = None  # set by the harness: callable(event, invocation_id, payload)
GLOBAL_APP: Any = None  # fallback app for sync mode


def _app() -> Any:
    return context.get_current_app() or GLOBAL_APP


def _self_task(name: str) -> Any:
    from pynenc.identifiers.task_id import TaskId

    return _app()._tasks[TaskId(__name__, name)]


def _inv_id(name: str) -> str | None:
    try:
        return _self_task(name).invocation.invocation_id
    except Exception:  # noqa: BLE001
        return None


def _probe(ev: str, name: str, payload: Any = None) -> None:
    if PROBE is not None:
        PROBE(ev, _inv_id(name), payload)


def add(x: int, y: int) -> int:
    _probe("enter", "add", (x, y))
    r = x + y
    _probe("exit", "add", r)
    return r


def tree(spec: dict) -> int:
    """spec = {"v": int, "kids": [spec...], "group": bool, "work": float}
    returns v + sum(results of kids)."""
    _probe("enter", "tree", spec.get("v"))
    t = _self_task("tree")
    total = int(spec.get("v", 0))
    kids = spec.get("kids") or []
    if kids:
        if spec.get("group"):
            grp = t.parallelize([(k,) for k in kids])
            total += sum(grp.results)
        else:
            invs = [t(k) for k in kids]
            for inv in invs:
                total += inv.result
    _probe("exit", "tree", total)
    return total
