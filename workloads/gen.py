"""Seeded generators for task programs (specs interpreted by simtasks.prog)."""

from __future__ import annotations

import random
from typing import Any


class Names:
    def __init__(self, prefix: str = "n") -> None:
        self.k = 0
        self.prefix = prefix

    def next(self) -> str:
        self.k += 1
        return f"{self.prefix}{self.k}"


def gen_prog(rng: random.Random, names: Names, depth: int = 2, fanout: int = 2, p_kids: float = 0.6, p_fail: float = 0.25, max_fail: int = 2, excs: tuple[str, ...] = ("retry", "sim"), work: tuple[float, ...] = (0.0,), allow_group: bool = True, two_tasks: bool = False) -> dict:
    node: dict[str, Any] = {"n": names.next(), "v": rng.randint(0, 9)}
    if two_tasks and rng.random() < 0.5:
        node["t"] = 2
    w = rng.choice(work)
    if w:
        node["work"] = w
    if depth > 0 and rng.random() < p_kids:
        node["kids"] = [gen_prog(rng, names, depth - 1, fanout, p_kids * 0.7, p_fail, max_fail, excs, work, allow_group, two_tasks) for _ in range(rng.randint(1, fanout))]
        if allow_group and len(node["kids"]) > 1 and rng.random() < 0.4:
            node["group"] = True
    if rng.random() < p_fail:
        k = rng.randint(1, max_fail)
        node["fail"] = list(range(1, k + 1))
        node["exc"] = rng.choice(excs)
        if node.get("kids") and rng.random() < 0.3:
            node["fail_after_kids"] = True
    return node


def nodes(spec: dict) -> list[dict]:
    out = [spec]
    for k in spec.get("kids") or []:
        out.extend(nodes(k))
    return out


def expected(spec: dict, max_retries: int, retriable: tuple[str, ...] = ("retry",)) -> tuple[str, Any, dict[str, int], dict[str, int]]:
    """Reference semantics of a program under `max_retries`:
    -> ("ok", value, lazy, eager) | ("exc", (kind, node, attempt), lazy, eager)

    Every launch of a node is a new invocation whose attempts count from 1; a
    body raising a retriable exception is re-executed while fewer than
    max_retries retries were used; kids are re-launched on every execution of
    their parent; a failing kid fails its parent with the kid's exception.

    `lazy` counts executions when a sub-task body only runs once its result is
    asked for (sync mode: siblings after a failed one never run); `eager` counts
    them when every launched sub-task runs (distributed mode at quiescence).
    The outcome is the same under both."""
    lazy: dict[str, int] = {}
    eager: dict[str, int] = {}
    flags = {"ambiguous": False}

    def run_node(node: dict, awaited: bool) -> tuple[str, Any]:
        retries = 0
        attempt = 0
        while True:
            name = node["n"]
            attempt += 1
            eager[name] = eager.get(name, 0) + 1
            if awaited:
                lazy[name] = lazy.get(name, 0) + 1
            fails = node.get("fail") or []
            exc = None
            total = int(node.get("v", 0))
            if attempt in fails and not node.get("fail_after_kids"):
                exc = (node.get("exc", "retry"), name, attempt)
            else:
                # the outcome of a node never depends on whether somebody awaits it (only the lazy
                # execution counts do): an un-awaited group member that fails through a child still fails
                still = True
                n_failed = 0
                for k in node.get("kids") or []:
                    r = run_node(k, awaited and still)
                    if r[0] == "exc":
                        n_failed += 1
                    if not still:
                        continue
                    if r[0] == "exc":
                        exc = r[1]
                        still = False  # later siblings are launched but never awaited
                    else:
                        total += r[1]
                if node.get("group") and n_failed >= 2:
                    # a distributed group hands results over in completion order: which of
                    # several failing members surfaces first is schedule-dependent
                    flags["ambiguous"] = True
                if exc is None and attempt in fails:
                    exc = (node.get("exc", "retry"), name, attempt)
            if exc is None:
                return ("ok", total)
            if exc[0] in retriable and retries < max_retries:
                retries += 1
                continue
            return ("exc", exc)

    out = run_node(spec, True)
    EXPECTED_FLAGS.clear()
    EXPECTED_FLAGS.update(flags)
    return (out[0], out[1], lazy, eager)


EXPECTED_FLAGS: dict[str, bool] = {}
