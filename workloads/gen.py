"""Seeded generators for task programs (specs interpreted by simtasks.prog)."""

from __future__ import annotations

import random
from typing import Any


class Names:
    def __init__(self, prefix: str = "n") -> None:
        self.k = 0
        self.prefix = prefix

    def next(self) -> str:
        self.k += 1
        return f"{self.prefix}{self.k}"


def gen_prog(rng: random.Random, names: Names, depth: int = 2, fanout: int = 2, p_kids: float = 0.6, p_fail: float = 0.25, max_fail: int = 2, excs: tuple[str, ...] = ("retry", "sim"), work: tuple[float, ...] = (0.0,), allow_group: bool = True) -> dict:
    node: dict[str, Any] = {"n": names.next(), "v": rng.randint(0, 9)}
    w = rng.choice(work)
    if w:
        node["work"] = w
    if depth > 0 and rng.random() < p_kids:
        node["kids"] = [gen_prog(rng, names, depth - 1, fanout, p_kids * 0.7, p_fail, max_fail, excs, work, allow_group) for _ in range(rng.randint(1, fanout))]
        if allow_group and len(node["kids"]) > 1 and rng.random() < 0.4:
            node["group"] = True
    if rng.random() < p_fail:
        k = rng.randint(1, max_fail)
        node["fail"] = list(range(1, k + 1))
        node["exc"] = rng.choice(excs)
        if node.get("kids") and rng.random() < 0.3:
            node["fail_after_kids"] = True
    return node


def nodes(spec: dict) -> list[dict]:
    out = [spec]
    for k in spec.get("kids") or []:
        out.extend(nodes(k))
    return out


def expected(spec: dict, max_retries: int, retriable: tuple[str, ...] = ("retry",)) -> tuple[str, Any, dict[str, int]]:
    """Reference semantics of a program under `max_retries`:
    -> ("ok", value, executions per node) | ("exc", (kind, node, attempt), executions)

    A body raising a retriable exception is re-executed while fewer than
    max_retries retries were used; kids are re-launched on every execution of
    their parent (each launch is a new invocation with its own retry budget),
    a failing kid fails its parent with the kid's exception (non-retriable
    unless its kind is retriable for the parent as well)."""
    counts: dict[str, int] = {}

    def run_node(node: dict) -> tuple[str, Any]:
        retries = 0
        while True:
            name = node["n"]
            counts[name] = counts.get(name, 0) + 1
            attempt = counts[name]
            fails = node.get("fail") or []
            exc = None
            total = int(node.get("v", 0))
            if attempt in fails and not node.get("fail_after_kids"):
                exc = (node.get("exc", "retry"), name, attempt)
            else:
                kid_results = []
                kids = node.get("kids") or []
                if node.get("group"):
                    # all kids are launched; results are consumed in order
                    launched = [run_node(k) for k in kids]
                    for r in launched:
                        if r[0] == "exc":
                            exc = r[1]
                            break
                        kid_results.append(r[1])
                else:
                    launched = [run_node(k) for k in kids]
                    for r in launched:
                        if r[0] == "exc":
                            exc = r[1]
                            break
                        kid_results.append(r[1])
                if exc is None:
                    total += sum(kid_results)
                    if attempt in fails:
                        exc = (node.get("exc", "retry"), name, attempt)
            if exc is None:
                return ("ok", total)
            if exc[0] in retriable and retries < max_retries:
                retries += 1
                continue
            return ("exc", exc)

    out = run_node(spec)
    return (out[0], out[1], counts)
