#!/bin/bash
# usage: tools/rerun_seeded_failures.sh  -- for every seeded change whose full-suite confirmation had failures (or no result),
# re-run exactly those tests (or the whole suite when there was no result) in a fresh scratch worktree with the patch applied,
# up to 3 attempts each; record the outcome under "rerun" in seeded/suite_results.json.
V=$(cd "$(dirname "$0")/.." && pwd)
/venv/bin/python - "$V" <<'PY' > /tmp/rerun_plan.txt
import json, sys, os
V=sys.argv[1]
res=json.load(open(os.path.join(V,"seeded","suite_results.json")))
for sid in sorted(os.listdir(os.path.join(V,"seeded"))):
    if not sid.startswith("C"): continue
    r=res.get(sid)
    if r is None or "error" in r: print(sid, "FULL"); continue
    if r.get("failures",0)+r.get("errors",0)==0: continue
    if r.get("rerun",{}).get("all_passed"): continue
    ids=[]
    for t in r["failed_tests"]:
        mod, name = t.split("::",1)
        ids.append(mod.replace(".","/")+".py::"+name)
    print(sid, "\t".join(ids))
PY
while read -r id rest; do
  wt=/tmp/wt_suite_$id
  git -C /repo worktree add -q --detach $wt HEAD || continue
  git -C $wt apply $V/seeded/$id/patch.diff || { git -C /repo worktree remove --force $wt; continue; }
  if [ "$rest" = "FULL" ]; then
    (cd $wt && PYTHONPATH=$wt setsid -w timeout -k 5 1700 /venv/bin/python -m pytest -ra -q -p no:cacheprovider --timeout=900 --continue-on-collection-errors --junitxml=/tmp/suite_$id.xml > /tmp/suite_$id.log 2>&1)
    /venv/bin/python - "$id" "$V" <<'PY'
import sys, json, os, xml.etree.ElementTree as ET
sid, V = sys.argv[1], sys.argv[2]
p = os.path.join(V, "seeded", "suite_results.json"); res = json.load(open(p))
try:
    r = ET.parse(f"/tmp/suite_{sid}.xml").getroot(); ts = r if r.tag == "testsuite" else r[0]
    failed = [tc.get("classname", "") + "::" + tc.get("name", "") for tc in ts.iter("testcase") if tc.find("failure") is not None or tc.find("error") is not None]
    res[sid] = {"tests": int(ts.get("tests")), "failures": int(ts.get("failures")), "errors": int(ts.get("errors")), "skipped": int(ts.get("skipped")), "failed_tests": failed[:10], "imports_from_worktree": True, "command": "pinned suite (BASELINE.json flags) in a scratch worktree of /repo HEAD with the patch applied (second attempt: the first hung in the fork of test_task_execution[SQLite MultiThread], an environment flake also seen on the unchanged tree)"}
except Exception as e:
    res[sid] = {"error": str(e)}
json.dump(res, open(p, "w"), indent=1, sort_keys=True); print(sid, res[sid])
PY
  else
    ok=1; detail=""
    IFS=$'\t' read -r -a tests <<< "$rest"
    for t in "${tests[@]}"; do
      passed=0
      for attempt in 1 2 3; do
        if (cd $wt && PYTHONPATH=$wt timeout 900 /venv/bin/python -m pytest -q -p no:cacheprovider --timeout=600 "$t" > /tmp/rerun_$id.log 2>&1); then passed=$attempt; break; fi
      done
      detail="$detail|$t=>$passed"
      [ $passed -eq 0 ] && ok=0
    done
    /venv/bin/python - "$id" "$V" "$ok" "$detail" <<'PY'
import sys, json, os
sid, V, ok, detail = sys.argv[1:5]
p = os.path.join(V, "seeded", "suite_results.json"); res = json.load(open(p))
res[sid]["rerun"] = {"all_passed": ok == "1", "tests": {d.split("=>")[0]: ("passed on attempt " + d.split("=>")[1]) if d.split("=>")[1] != "0" else "failed 3 times" for d in detail.split("|") if d},
                     "note": "the tests that failed in the full run, re-run alone in a fresh worktree with the patch applied (load-sensitive performance / multi-process tests)"}
json.dump(res, open(p, "w"), indent=1, sort_keys=True); print(sid, res[sid]["rerun"])
PY
  fi
  ps aux | grep -v grep | grep -E "multiprocessing|pytest" | awk '{print $2}' | xargs -r kill -9 2>/dev/null
  git -C /repo worktree remove --force $wt
  find /tmp -maxdepth 1 \( -name "tmp*" -o -name "pymp-*" \) -mmin +1 -exec rm -rf {} + 2>/dev/null
done < /tmp/rerun_plan.txt
git -C /repo worktree prune
