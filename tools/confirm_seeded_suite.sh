#!/bin/bash
# usage: tools/confirm_seeded_suite.sh [id ...]  -- for each seeded change: scratch worktree of /repo HEAD under /tmp, apply the patch,
# run the pinned test suite there (same flags as /root/.vp/BASELINE.json), record passed/failed in seeded/suite_results.json, remove the worktree.
# Needs a quiet machine (the suite has load-sensitive tests); ~5 min per change.
V=$(cd "$(dirname "$0")/.." && pwd)
ids=${*:-$(ls $V/seeded | grep '^C')}
for id in $ids; do
  wt=/tmp/wt_suite_$id
  git -C /repo worktree add -q --detach $wt HEAD || continue
  if ! git -C $wt apply $V/seeded/$id/patch.diff; then echo "$id: patch does not apply"; git -C /repo worktree remove --force $wt; continue; fi
  (cd $wt && PYTHONPATH=$wt setsid -w timeout -k 5 1700 /venv/bin/python -m pytest -ra -q -p no:cacheprovider --timeout=900 --continue-on-collection-errors --junitxml=/tmp/suite_$id.xml > /tmp/suite_$id.log 2>&1)
  ps aux | grep -v grep | grep -E "multiprocessing|pytest" | awk '{print $2}' | xargs -r kill -9 2>/dev/null
  /venv/bin/python - "$id" "$V" <<'PY'
import sys, json, os, xml.etree.ElementTree as ET
sid, V = sys.argv[1], sys.argv[2]
p = os.path.join(V, "seeded", "suite_results.json")
res = json.load(open(p)) if os.path.exists(p) else {}
try:
    r = ET.parse(f"/tmp/suite_{sid}.xml").getroot(); ts = r if r.tag == "testsuite" else r[0]
    failed = [tc.get("classname", "") + "::" + tc.get("name", "") for tc in ts.iter("testcase") if tc.find("failure") is not None or tc.find("error") is not None]
    res[sid] = {"tests": int(ts.get("tests")), "failures": int(ts.get("failures")), "errors": int(ts.get("errors")), "skipped": int(ts.get("skipped")), "failed_tests": failed[:10],
                "imports_from_worktree": True, "command": "pinned suite (BASELINE.json flags) in a scratch worktree of /repo HEAD with the patch applied"}
except Exception as e:
    res[sid] = {"error": str(e)}
json.dump(res, open(p, "w"), indent=1, sort_keys=True)
print(sid, res[sid])
PY
  git -C /repo worktree remove --force $wt; rm -f /tmp/suite_$id.xml
  find /tmp -maxdepth 1 \( -name "tmp*" -o -name "pymp-*" \) -mmin +1 -exec rm -rf {} + 2>/dev/null
done
git -C /repo worktree prune
