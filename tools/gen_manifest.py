#!/venv/bin/python
"""Regenerates MANIFEST.json from the check modules (checks/cXX.py) so that the
manifest can never name a check that does not exist.  Properties without a
check module are listed under not_applicable with the reason from NOT_BUILT."""

from __future__ import annotations

import glob
import importlib
import json
import os
import sys

VERIF = os.path.dirname(os.path.dirname(os.path.abspath(__file__)))
sys.path.insert(0, VERIF)
sys.path.insert(0, "/repo")

NOT_CLAIMED: dict[str, str] = {}
try:
    with open(os.path.join(VERIF, "tools", "not_claimed.json")) as f:
        NOT_CLAIMED = json.load(f)
except FileNotFoundError:
    pass


def main() -> None:
    props = [json.loads(line) for line in open(os.path.join(VERIF, "properties.jsonl"))]
    built = sorted(os.path.basename(p)[:-3].upper() for p in glob.glob(os.path.join(VERIF, "checks", "c[0-9][0-9].py")))
    checks = []
    engines: dict[str, list[str]] = {"A": [], "B": []}
    for pid in built:
        if pid in NOT_CLAIMED:
            continue
        mod = importlib.import_module(f"checks.{pid.lower()}")
        for e in getattr(mod, "ENGINES", ["B"]):
            engines[e].append(pid)
        checks.append(
            {
                "property_id": pid,
                "quick_cmd": f"./check {pid} --tier quick",
                "thorough_cmd": f"./check {pid} --tier thorough",
                "evidence_file": f"evidence/{pid}.json",
                "replay_cmd_template": "./check replay {path}",
                "engine": "simkit-" + "+".join(getattr(mod, "ENGINES", ["B"])),
                "level_claimed": {
                    "category": mod.LEVEL,
                    "text": mod.LEVEL_TEXT,
                    "design_ref": f"DESIGN.md section 10 ({pid}) and section 16",
                },
                "level_note": mod.LEVEL_NOTE,
                "technique": mod.TECHNIQUE,
            }
        )
    na = []
    for p in props:
        if p["id"] not in [c["property_id"] for c in checks]:
            na.append({"property_id": p["id"], "reason": NOT_CLAIMED.get(p["id"], "check not built yet (work in progress, see DESIGN.md section 14)")})
    m = {
        "version": 1,
        "setup_cmd": "./check setup",
        "hooks": {
            "guard": "PYNENC_VERIF_SIM",
            "enable": "no source hooks in /repo: checks import pynenc from /repo's working tree (PYTHONPATH=/repo first) and replace module attributes (time, datetime, threading, uuid, sqlite3, os, socket, signal) in-process; PYNENC_VERIF_SIM=1 is set in worker processes only as a marker and is read by nothing in /repo",
            "baseline_off_cmd": "cd /repo && /venv/bin/python -m pytest -ra -q -p no:cacheprovider --timeout=900 --continue-on-collection-errors",
            "source_commits": [],
            "add_only": True,
        },
        "engines": [
            {"name": "simkit-A", "path": "simkit/seq.py", "serves_properties": engines["A"], "kind_free_text": "sequential deterministic simulation: virtual clock, seeded operation-and-fault sequences against real backends in lock-step with reference models"},
            {"name": "simkit-B", "path": "simkit/core.py", "serves_properties": engines["B"], "kind_free_text": "threaded deterministic simulation: baton-passing real threads, seeded scheduler (rand / pct / rr / scripted replay), SQL-statement and source-line pre-emption, crash / stop / clock faults, real SQLite engine"},
        ],
        "checks": checks,
        "notes": "Deterministic simulation with fault injection only (no model checker, no proof). Known findings: known_findings.json. Fixes to pynenc are separate 'fix:' commits in /repo, recorded there as fixed.",
        "not_applicable": na,
    }
    with open(os.path.join(VERIF, "MANIFEST.json"), "w") as f:
        json.dump(m, f, indent=1)
    print(f"MANIFEST.json: {len(checks)} checks, {len(na)} not claimed")


if __name__ == "__main__":
    main()
