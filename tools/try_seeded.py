#!/venv/bin/python
"""Run quick checks against a seeded change: tools/try_seeded.py <seeded-id> [Cxx ...] [--tier quick|thorough]

Applies seeded/<id>/patch.diff to a scratch copy of /repo (VERIF_REPO), runs the named checks (default: the
property of meta.json, else the id's own property) with evidence / replays redirected to a scratch VERIF_OUT,
and prints which checks raised a VIOLATION.  /repo itself is not touched.
"""
from __future__ import annotations

import json
import os
import shutil
import subprocess
import sys
import tempfile
import time

VERIF = os.path.dirname(os.path.dirname(os.path.abspath(__file__)))
sys.path.insert(0, VERIF)
from selftest.sensitivity import make_scratch  # noqa: E402


def main() -> int:
    args = sys.argv[1:]
    tier = "quick"
    if "--tier" in args:
        i = args.index("--tier")
        tier = args[i + 1]
        args = args[:i] + args[i + 2 :]
    sid = args[0]
    props = args[1:] or [sid[:3]]
    patch = os.path.join(VERIF, "seeded", sid, "patch.diff")
    scratch = make_scratch(patch)
    out = tempfile.mkdtemp(prefix="pynenc-seeded-out-", dir=os.path.dirname(scratch))
    env = dict(os.environ, VERIF_REPO=scratch, VERIF_OUT=out)
    res = {}
    try:
        for p in props:
            t0 = time.time()
            r = subprocess.run([os.path.join(VERIF, "check"), p, "--tier", tier], capture_output=True, text=True, env=env, timeout=3600)
            sigs = [ln.strip() for ln in r.stdout.splitlines() if ln.startswith("  C")]
            res[p] = {"rc": r.returncode, "caught": r.returncode == 1, "signatures": sigs[:6], "wall_s": round(time.time() - t0, 1)}
            print(f"{sid} vs {p}: rc={r.returncode} {'CAUGHT' if r.returncode == 1 else 'missed'} {sigs[:3]} ({res[p]['wall_s']}s)", flush=True)
            if r.returncode == 2:
                print(r.stderr[-800:])
    finally:
        shutil.rmtree(scratch, ignore_errors=True)
        shutil.rmtree(out, ignore_errors=True)
    print(json.dumps(res))
    # keep the outcome next to the change (merged per check)
    rp = os.path.join(VERIF, "seeded", sid, "check_results.json")
    allres = {}
    if os.path.exists(rp):
        with open(rp) as f:
            allres = json.load(f)
    for p, r in res.items():
        r["tier"] = tier
        allres[p] = r
    with open(rp, "w") as f:
        json.dump(allres, f, indent=1, sort_keys=True)
    return 0


if __name__ == "__main__":
    sys.exit(main())
