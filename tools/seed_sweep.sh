#!/bin/bash
# usage: tools/seed_sweep.sh "<seeds>" [Cxx ...]   -- runs the quick tier of the named (default: all) checks for each VERIF_SEED,
# prints one line per (seed, check) that did not exit 0 or printed a VIOLATION.  Evidence files are rewritten by the last run.
cd "$(dirname "$0")/.." || exit 2
seeds=${1:-"1 2 3"}; shift
checks=${*:-$(seq -f "C%02g" 1 20)}
bad=0
for s in $seeds; do
  for c in $checks; do
    out=$(VERIF_SEED=$s ./check $c 2>&1); rc=$?
    if [ $rc -ne 0 ] || echo "$out" | grep -q "^VIOLATION"; then
      bad=$((bad+1)); echo "ALARM seed=$s $c rc=$rc"; echo "$out" | grep -E "^(VIOLATION|  C|HARNESS)" | head -6
    else
      echo "ok seed=$s $c $(echo "$out" | tail -1)"
    fi
  done
done
echo "seed sweep: $bad alarms"
exit $((bad>0))
