#!/venv/bin/python
"""(Re)write seeded/<id>/meta.json from the table below (facts recorded by hand after running the commands named in it)."""
import json, os
V = os.path.dirname(os.path.dirname(os.path.abspath(__file__)))
COMMON_RAN = [
    "demo: cd <scratch worktree> && PYTHONPATH=<worktree> /venv/bin/python demo_<id>.py  -> exit 1 with the change, exit 0 with the change stashed (confirmed by me, not only by the sub-agent)",
    "existing tests with the change applied: see 'suite'",
    "checks: tools/try_seeded.py <id> <checks>  (patch applied to a scratch copy, VERIF_REPO; /repo untouched)",
]
T = {
 "C02": dict(breaks=["C02", "C10"], summary="MemOrchestrator drops the per-invocation lock entry from self.locks after every transition ('to save memory'): a thread that is still waiting on the old Lock object and a newcomer that creates a fresh one are no longer mutually exclusive.",
             needs="three threads on one in-memory app: one holds the invocation lock inside a transition, a second is blocked on that lock object, a third arrives after the entry was popped and takes a new lock; second and third then both validate PENDING against the same previous record (double claim). Needs duplicate queue entries or a reroute in flight.",
             caught_by={"C02": "C02/mem/double-claim/*, illegal-step/ownership", "C10": "history multiset differs"}, missed_by={}),
 "C03": dict(breaks=["C03", "C04"], summary="recover_pending_invocations wraps the whole loop in one try/except: the first lost race (owner moved between scan and transition) aborts the run before _reroute_each, leaving the invocations already moved to PENDING_RECOVERY unqueued for ever.",
             needs="no crash at all: a live but slow runner whose claimed invocations stay PENDING beyond max_pending_seconds, at least two of them in one recovery scan, and the owner starting one of them (PENDING->RUNNING) after an earlier one was already moved to PENDING_RECOVERY.",
             caught_by={"C03": "C03/stranded/status-written-not-requeued/status=PENDING_RECOVERY/role=None (stratum fault-free-stalled-worker, added because the first version of C03 missed this change)", "C04": "C04/race/*/stuck-in-PENDING_RECOVERY/raised=False"}, missed_by={"C03 (before the stalled-worker stratum)": "no scenario had a live owner racing with the recovery run"}),
 "C04": dict(breaks=["C04", "C03"], summary="_reroute_each pushes the id to the broker before writing REROUTED: a runner polling in that window pops the message, sees PENDING_RECOVERY (not available), drops it; the status then becomes REROUTED with nothing in the queue.",
             needs="a third runner polling the queue between the recovery run's queue push and its status write.",
             caught_by={"C04": "C04/race/*/rerouted-not-queued (a concurrent poller was added to the race scenarios because the first version missed this change)"}, missed_by={"C04 (before the concurrent poller)": "nobody polled the queue while the recovery run was under way", "C03": "the window is two statements wide and C03's recovery runs are rare (once a virtual minute); not hit in the quick tier"}),
 "C05": dict(breaks=["C05"], summary="deserialize_exception uses the plain serializer instead of the client data store: an exception whose serialised form was externalised (large arguments) comes back as garbage / KeyError instead of the raised exception.",
             needs="a task failing with an exception whose serialised size exceeds min_size_to_cache (default 1024).",
             caught_by={"C05": "C05/*/failed-without-exception/exc/* (the exception generator got a large-argument mode because the first version missed this change)"}, missed_by={"C05 (before large exception arguments)": "all generated exceptions stayed inline"}),
 "C06": dict(breaks=["C06"], summary="MemOrchestrator argument-index intersection works on the stored set itself (no copy): intersection_update shrinks the index entry of the first key/value pair, so later look-ups miss running invocations.",
             needs="ARGUMENTS / KEYS mode with at least two key arguments and three invocations sharing the first pair but not the second.",
             caught_by={"C06": "C06/mem/two-running/*"}, missed_by={}),
 "C09": dict(breaks=["C09", "C16"], summary="MemBlockingControl.release_waiters keeps an empty waiting_for entry for a waiter whose last awaited invocation finished: the waiter still counts as 'waiting on something' and is never reported as blocking when somebody later waits on it.",
             needs="wait, release, then a new wait declared on the former waiter.",
             caught_by={"C09": "C09/graph/mem/misses-blocking", "C16": "C16/differs/get_blocking_invocations"}, missed_by={}),
 "C10": dict(breaks=["C10"], summary="history records are built inside the background writer thread instead of before it is started; the record content is the same but two writers of one invocation can now be started and append in inverted order relative to the status changes (the previous code appended the thread to invocation_threads and joined earlier writers).",
             needs="a schedule in which the writer thread of a later status change runs before the writer of an earlier one.",
             caught_by={"C10": "C10/*/entry-order-inverted/* (happens-before clause between add_history calls and stored entries, added because the first version compared multisets and record timestamps only)"}, missed_by={"C10 (before the happens-before clause)": "entries carry the status record's own timestamp, so sorting by it hid the inversion"}),
 "C11": dict(breaks=["C11"], summary="ThreadRunner.runner_loop_iteration stops spawning threads when a stop was requested while it iterates the claimed invocations: those already claimed (PENDING, owned by the runner) but not yet started are neither run nor rerouted by _on_stop.",
             needs="the stop request must land while the loop is between claiming and starting threads, with two or more invocations claimed in that iteration.",
             caught_by={"C11": "C11/*/owned-after-stop/PENDING"}, missed_by={}),
 "C13": dict(breaks=["C13"], summary="the storage-side re-evaluation of a cron condition is skipped when a cached last execution exists: a runner with a stale local cache fires an occurrence another runner already claimed.",
             needs="two runners (two caches) on one SQLite trigger store polling the same cron minute alternately.",
             caught_by={"C13": "C13/cron/*/fired-unexpectedly, C13/conc/*/launched-twice"}, missed_by={}),
 "C16": dict(breaks=["C16", "C09"], summary="same source change as seeded/C09 (the sub-agent for C16 independently produced the identical edit in MemBlockingControl.release_waiters).",
             needs="see seeded/C09", caught_by={"C16": "C16/differs/get_blocking_invocations", "C09": "C09/graph/mem/misses-blocking"}, missed_by={}),
 "C18": dict(breaks=["C18"], summary="WorkflowContext keeps executors in a dict keyed by invocation id instead of on the invocation object: a retry of the same invocation in the same process continues the counters of the previous attempt (n-th value differs between attempts).",
             needs="a workflow task retried in the same runner process that draws deterministic values before raising.",
             caught_by={"C18": "C18/*/value-differs-between-attempts/*"}, missed_by={}),
 "C19": dict(breaks=["C19"], summary="SQLite workflow sub-invocation bookkeeping uses INSERT instead of INSERT OR REPLACE: recording the same sub-invocation again (a retried sub-task that is not the workflow's main task) raises IntegrityError inside the worker, the retry path fails, outcome and execution counts differ from sync mode and from the in-memory stack.",
             needs="a nested call whose child retries, on the SQLite stack, the child being a different task than the workflow's main task.",
             caught_by={"C19": "C19/mem-vs-sqlite/outcome, executions (programs mixing two tasks were added because the first version used one task for every node)"}, missed_by={"C19 (before two-task programs)": "with a single task the child is the workflow's own main task and the bookkeeping path is not taken"}),
}

T.update({
 "C01": dict(breaks=["C01", "C02"], summary="MemOrchestrator._atomic_status_transition reads the current record before taking the per-invocation lock ('fail fast for unknown ids'): validation and write happen under the lock but against a possibly stale record.",
             needs="two threads requesting a change of the same invocation, both reading the record before either enters the critical section (e.g. two runners REGISTERED->PENDING: both accepted, PENDING->PENDING by a non-owner, no status error).",
             caught_by={"C01": "C01/conc/mem/double-claim, illegal-step/ownership (concurrent stratum added because C01 was sequential only and missed this change)", "C02": "C02/mem/double-claim/PENDING->PENDING"}, missed_by={"C01 (before the concurrent stratum)": "every C01 scenario issued one request at a time"}),
 "C07": dict(breaks=["C07", "C06"], summary="MemOrchestrator.filter_by_key_arguments intersects in place on the live index set (dropped .copy()): a look-up silently removes still-REGISTERED invocations from the argument index. (Same edit as seeded/C06, found independently.)",
             needs="registration key with two or more arguments; a look-up whose intersection is a strict subset of the first pair's set; then a re-submission of the removed key.",
             caught_by={"C07": "C07/mem/duplicate-created/*, different-args-not-rejected/KEYS", "C06": "C06/mem/two-running/*"}, missed_by={"C16": "the equivalence alphabet queries by arguments with one key only"}),
 "C08": dict(breaks=["C08"], summary="SQLiteBroker.route_invocations inserts the batch in one transaction stamped with time.time() (Unix seconds) while single routings keep julianday('now'): every single-routed message sorts ahead of every batch-routed one still queued.",
             needs="a batch routing and a later single routing in the queue at the same time.",
             caught_by={"C08": "C08/seq/sqlite/retrieve/wrong-result, C08/conc/sqlite/not-linearizable"}, missed_by={}),
 "C12": dict(breaks=["C12"], summary="calculate_time_slot's validity guard tests margin > slot instead of end <= start: with margin == slot every window is empty and no runner is ever authorised.",
             needs="runner count exactly interval / margin (5 runners with the default 5 min / 1 min).",
             caught_by={"C12": "C12/*/runner-never-authorised-in-cycle, differs-from-model/missing"}, missed_by={}),
 "C14": dict(breaks=["C14"], summary="PersistentProcessRunner prunes dead workers only when at least one worker is alive (walrus guard copied from the heartbeat code): when all workers die at once nothing is pruned or respawned.",
             needs="every worker of the pool dead at the same loop iteration.",
             caught_by={"C14": "C14/PPR/dead-workers-still-tracked, pool-below-capacity"}, missed_by={}),
 "C15": dict(breaks=["C15"], summary="content keys of serialised values longer than 16 KiB are derived from the length plus the first and last 8 KiB: two large values of equal length that differ only in the middle get the same reference (store overwrite, equal call ids, wrong argument delivered).",
             needs="two externalised values > 16384 characters, same length, differing in the middle only.",
             caught_by={"C15": "C15/*/reference-resolves-to-other-content/near-collision/* (near-collision pairs now differ at head, middle or tail and go up to 70 000 characters; the first version had common prefixes up to 4 KiB and different tails only)"}, missed_by={"C15 (before)": "near-collision pairs were small and differed at the tail"}),
 "C17": dict(breaks=["C17"], summary="delete_tables_with_prefix escapes LIKE wildcards but drops the post-filter that skipped tables of another app whose own prefix starts with ours: purging a component of app A wipes app B when B's id is literally A's storage prefix for that component.",
             needs="app ids where one is the other's table prefix; purge of the matching component.",
             caught_by={"C17": "C17/sqlite/foreign-state-changed/purge-app/*"}, missed_by={}),
 "C20": dict(breaks=["C20", "C16"], summary="MemOrchestrator.count_invocations intersects in place on the live task index when both task_id and statuses are given: GET /invocations/?task_id=..&status=.. deletes every invocation of the task in another status from the index.",
             needs="in-memory orchestrator; the combination of both filters on that one route; invocations of the task in another status.",
             caught_by={"C20": "C20/mem/inv_count/GET /invocations/", "C16": "C16/differs/count_invocations, get_existing_invocations"}, missed_by={"C07": "not targeted (C07 never counts with both filters)"}),
})


T.update({
 "C02b": dict(breaks=["C02"], summary="get_additional_invocations_to_run: a refactor moved the yield out of the try block and lost the `continue` of the except branch, so a poller whose REGISTERED/REROUTED/RETRY -> PENDING claim was refused still yields the invocation (the status record is right, the hand-out is not).",
              needs="two pollers reaching the claim of the same id (duplicate queue entry, or blocking-priority list vs queue), both reading an available status before either claims.",
              caught_by={"C02": "C02/*/handed-vs-claimed"}, missed_by={}),
 "C03b": dict(breaks=["C03"], summary="the PersistentProcessRunner worker takes only the first item of get_invocations_to_run (next(iter(...))) and drops the generator: the re-queue of concurrency-blocked invocations, which runs after the generator's last yield, never happens; the blocked invocation stays CONCURRENCY_CONTROLLED, un-queued, for ever. No fault needed.",
              needs="running concurrency with reroute; a worker's single poll pops a blocked invocation followed by a runnable one.",
              caught_by={"C03": "C03/stranded/status-written-not-requeued/status=CONCURRENCY_CONTROLLED/role=None (stratum fault-free-ppr with a keyed workload of uneven work, added because of this change; with a crash in the run the same signature for role=ppr-worker is a listed crash window, so the fault-free stratum is what decides)"}, missed_by={"C03 (before fault-free-ppr)": "persistent-process workers only appeared in crash runs, where this signature is a listed known finding"}),
 "C05b": dict(breaks=["C15", "C05"], summary="BaseClientDataStore._maybe_store skips the backend write when the content key is in the process-local LRU: after another process purged the shared store, a worker that produces the same large value again hands out a reference to a blob that no longer exists (SUCCESS observed, result unreadable).",
              needs="an externalised value produced twice by one long-lived process, with a purge by another process / app instance in between, read by a process without the key cached.",
              caught_by={"C15": "C15/sqlite/reference-does-not-resolve/after-purge-by-other-party/* (operation 'the other party purges, then equal content is serialised again' added because of this change)"}, missed_by={"C05": "C05's scenarios never purge (outside its quantifier); the defect is in the client data store", "C15 (before)": "no purge by the other party", "C16, C17": "single app instance per store / no re-serialisation after a purge"}),
 "C06b": dict(breaks=["C06", "C16"], summary="MemOrchestrator.clean_up_invocation pops the whole argument-index bucket of each argument of the purged invocation instead of discarding the one id: a still-RUNNING invocation sharing an argument value disappears from the concurrency index.",
              needs="auto_purge() of an old final invocation while another invocation with the same key is RUNNING, then a third same-key submission.",
              caught_by={"C06": "C06/mem/two-running/* (an operator thread calling auto_purge() with a 36 ms horizon was added to 30 % of the runs because of this change)", "C16": "C16/differs/get_existing_invocations/value (thanks to the indexed key arguments added earlier)"}, missed_by={"C06 (before the purge operator)": "nothing ever purged"}),
 "C08b": dict(breaks=["C08"], summary="SQLiteBroker.retrieve_invocation reads the head of the queue before BEGIN IMMEDIATE ('an empty queue should not take the write lock'): two retrievers read the same head row, the second deletes zero rows and returns the same id.",
              needs="a second retriever's SELECT between the first retriever's SELECT and its DELETE/commit.",
              caught_by={"C08": "C08/conc/sqlite/conservation/duplicated"}, missed_by={}),
 "C09b": dict(breaks=["C09"], summary="MemBlockingControl.get_blocking_invocations snapshots only the first `limit` ids of the ready set and filters by runnable status afterwards: non-runnable ready entries (children already PENDING / RUNNING) eat the limit.",
              needs="a ready set larger than the limit containing waited-on invocations in a non-runnable, non-final status ahead of runnable ones.",
              caught_by={"C09": "C09/graph/mem/misses-blocking"}, missed_by={}),
 "C10b": dict(breaks=["C10"], summary="MemStateBackend._add_histories replaces list.append by read - sort - store back ('sort on write'): two history writers of one invocation that overlap lose one entry.",
              needs="writer A between its snapshot and its store while writer B runs in full (a few byte codes wide under the GIL).",
              caught_by={"C10": "C10/mem/missing/* (the in-memory poll scenarios now pre-empt at line level inside the state backend too; before, history writers could only be delayed as a whole)"}, missed_by={"C10 (before)": "no pre-emption point inside the in-memory state backend"}),
 "C13b": dict(breaks=["C13"], summary="MemTrigger.clear_valid_conditions builds a filtered copy of the pending-occurrence map and rebinds it: an occurrence recorded by another thread between the copy and the rebind is lost (launches zero times).",
              needs="an occurrence report landing between the copy and the rebind inside clear_valid_conditions of a loop iteration that has something to clear.",
              caught_by={"C13": "C13/conc/mem/lost/* (live reports are now spread over the whole loop duration or released by a hook while a loop thread is inside clear_valid_conditions / get_valid_conditions / claim_trigger_run; 400 quick runs)"}, missed_by={"C13 (before)": "live reports all landed within the first 2 ms of the loops"}),
 "C18b": dict(breaks=["C18"], summary="DeterministicExecutor memoises recorded sub-invocations in a mutable class attribute keyed by call id only: after workflow A replayed execute_task(child, x), workflow B issuing the identical call in the same process gets A's sub-invocation and never launches its own.",
              needs="a replay in workflow A followed by the identical helper call of another workflow of the same task in the same process.",
              caught_by={"C18": "C18/*/replay-differs/task, subtask-launched-twice"}, missed_by={}),
 "C19b": dict(breaks=["C19"], summary="set_invocation_retry re-queues before it increments the retry counter: a slow worker in that window lets the next attempt read a stale counter and get one retry too many. (patch.orig.diff is the agent's diff against 9a38ceb; patch.diff is the same edit rebased onto the fix 0265987 that this change led to.)",
              needs="the failing attempt's thread stalled between route and increment for one runner poll plus one body execution.",
              caught_by={"C19": "C19/*/executions/* (worker-stall and slow-hand-over faults added because of this change; they found the same race in the unchanged code through the blocking-invocations path: fix 0265987)"}, missed_by={"C19 (before the stall faults)": "virtual time did not pass inside a worker's hand-over, so the window was never held open"}),
})


T.update({
 "C01b": dict(breaks=["C01", "C02"], summary="SQLiteOrchestrator._atomic_status_transition becomes optimistic: validate against a record read without the write lock, then UPDATE ... WHERE status = <validated status> (compare-and-swap on the status only): an ABA hole - the former owner's stale request is accepted after recovery and a new claim brought the status back to the same value.",
              needs="three foreign transitions (PENDING_RECOVERY, REROUTED, PENDING by another runner) inside one runner's read-to-write window.",
              caught_by={"C01": "C01/conc/sqlite/illegal-step/*"}, missed_by={}),
 "C04b": dict(breaks=["C04"], summary="SQLite heartbeat upsert gets a WHERE clause meant to stop a parent's report from downgrading eligibility; a SQLite upsert WHERE guards the whole DO UPDATE, so the last_heartbeat refresh of a parent-reported child is dropped too and its RUNNING work is listed for recovery.",
              needs="a runner that heart-beated with can_run_atomic_service=True and is afterwards only kept alive by parent reports (False) for longer than the dead-after time.",
              caught_by={"C04": "C04/hist/*/running-scan/*, status-after-*"}, missed_by={}),
 "C07b": dict(breaks=["C07"], summary="route_call looks for an existing invocation in every available status (REGISTERED, REROUTED, RETRY) instead of REGISTERED only: a submission is collapsed onto (or rejected because of) an invocation that already left REGISTERED and was re-queued.",
              needs="an invocation of the same key in RETRY or REROUTED at the time of the new submission.",
              caught_by={"C07": "C07/*/duplicate-created, different-args-not-rejected (the 'move' operation now walks PENDING / RUNNING / KILLED / RETRY / REROUTED / FAILED along legal edges; before it went REGISTERED -> PENDING -> RUNNING -> SUCCESS only)"}, missed_by={"C07 (before)": "no invocation ever was in RETRY or REROUTED"}),
 "C11b": dict(breaks=["C11"], summary="_reclaim_available_slots rebuilds self.threads from the non-waiting threads only ('single pass'): _on_stop never sees a parent that waits for a sub-task; it stays RUNNING under the stopped runner.",
              needs="a stop while a parent thread is waiting, after at least one further loop iteration.",
              caught_by={"C11": "C11/*/left-owned/RUNNING/kind=tree"}, missed_by={}),
 "C12b": dict(breaks=["C12"], summary="calculate_time_slot stretches a runner's window to the duration of its last recorded service execution (clamped to the slot): windows eat into the margin.",
              needs="execution history (record_atomic_service_execution) with a duration longer than slot - margin, two or more runners.",
              caught_by={"C12": "C12/*/margin-not-kept, differs-from-model/extra (half of the runs now record execution histories of various lengths; before, no history existed)"}, missed_by={"C12 (before)": "active-runner lists never carried execution history"}),
 "C14b": dict(breaks=["C14"], summary="MultiThreadRunner._cleanup_dead_processes returns early when no worker is alive (guard on the wrong set): a pool that dies as a whole is never pruned or replaced.",
              needs="every tracked worker dead between two loop iterations.",
              caught_by={"C14": "C14/MTR/dead-workers-still-tracked, pool-below-capacity"}, missed_by={}),
 "C15b": dict(breaks=["C15"], summary="compute_args_id no longer JSON-quotes the serialised value: the byte stream is not self-delimiting; {'a':'1','b':'2'} collides with {'a':'1;\"b\"=2'}.",
              needs="a value containing ;\"<next key>\"= (reachable through reference-prefixed strings that are passed through verbatim).",
              caught_by={"C15": "C15/*/identity-encoding (collision candidates for the encodings that quote only keys / only values / nothing were added)"}, missed_by={"C15 (before)": "the re-splitting candidates did not contain a JSON-quoted key inside a value"}),
 "C16b": dict(breaks=["C16", "C06"], summary="MemOrchestrator.clean_up_invocation deletes an argument-index bucket when one id is left after the discard (off by one): the last live sibling of a purged invocation disappears from argument queries and from concurrency control.",
              needs="auto_purge of a final invocation whose argument value is shared by exactly one other live invocation.",
              caught_by={"C16": "C16/differs/get_existing_invocations/value"}, missed_by={}),
 "C17b": dict(breaks=["C17"], summary="sanitize_table_prefix uses plain lower-case identifiers verbatim (no hash): an app whose id equals another app's storage prefix '<sanitised>_<hash>' shares all its tables.",
              needs="one id that needs sanitising plus a second id exactly equal to the first one's bare prefix.",
              caught_by={"C17": "C17/sqlite/foreign-state-changed/* (the look-alike generator now also produces the bare prefix and its lower-case form; before, only component-level prefixes)"}, missed_by={"C17 (before)": "look-alike ids always contained a '__<component>' part"}),
 "C20b": dict(breaks=["C20"], summary="GET /broker/queue skips an id it already popped ('list it once') and never routes the skipped copy back: a queue holding the same id twice shrinks.",
              needs="the same invocation id queued more than once within the first `limit` messages.",
              caught_by={"C20": "C20/*/queue-lost/GET /broker/queue (states with duplicate queue entries added)"}, missed_by={"C20 (before)": "no state had duplicate queue entries"}),
})


T.update({
 "C02c": dict(breaks=["C02"], summary="SQLiteOrchestrator._atomic_status_transition takes BEGIN IMMEDIATE only for transitions that acquire or override ownership; all others read, validate and write without the write lock (a non-owner's REGISTERED -> CONCURRENCY_CONTROLLED can overwrite a RUNNING written in between).",
              needs="a poller marking an invocation CONCURRENCY_CONTROLLED from a stale read while another runner claims and starts it (duplicate queue entry, running concurrency with reroute).",
              caught_by={"C02": "C02/sqlite/illegal-step/transition/*"}, missed_by={}),
 "C06c": dict(breaks=["C06"], summary="SQLite argument index stores only the declared key_arguments: ARGUMENTS mode on a task that also declares key_arguments never finds a same-arguments invocation.",
              needs="running concurrency ARGUMENTS on a task with key_arguments, SQLite, two submissions with identical arguments.",
              caught_by={"C06": "C06/sqlite/two-running/mode=ARGUMENTS/* (key_arguments are now declared in 40 % of the non-KEYS runs and half of the ARGUMENTS-mode submissions repeat an earlier one exactly)"}, missed_by={"C06 (before)": "key_arguments were only declared in KEYS mode and exact repeats of all arguments were rare"}),
 "C08c": dict(breaks=["C08"], summary="MemBroker.retrieve_invocation becomes check - peek - log - pop instead of one atomic popleft: two retrievers deliver the head twice and lose the next message.",
              needs="two retrievers inside the peek-to-pop window.",
              caught_by={"C08": "C08/conc/mem/conservation/duplicated, lost"}, missed_by={}),
 "C09c": dict(breaks=["C09"], summary="SQLiteBlockingControl.get_blocking_invocations applies LIMIT in SQL and the runnable-status filter afterwards in Python: non-runnable candidates eat the limit.",
              needs="waited-on invocations in PENDING / RUNNING ahead of runnable ones, limit smaller than the candidate set.",
              caught_by={"C09": "C09/graph/sqlite/misses-blocking"}, missed_by={}),
 "C13c": dict(breaks=["C13"], summary="SQLiteTrigger.claim_trigger_run loses its BEGIN IMMEDIATE: two runners both see 'not claimed' and both launch.",
              needs="two trigger loops whose SELECTs precede both INSERTs.",
              caught_by={"C13": "C13/conc/sqlite/launched-twice/*"}, missed_by={}),
 "C18c": dict(breaks=["C18"], summary="DistributedInvocation.from_parent: a force_new_workflow task called from inside a workflow of the same task type inherits the parent's workflow identity; parent and callee share deterministic values and records.",
              needs="a task declared with force_new_workflow that calls itself (or is called from a workflow of its own type).",
              caught_by={"C18": "C18/*/workflows-share-identity (40 % of the runs now declare force_new_workflow and let workflows call the task again from inside; before, no sub-workflow existed)"}, missed_by={"C18 (before)": "no run used force_new_workflow"}),
})

# sixth wave (eight properties, third change each; "look elsewhere" lists extended)
T.update({
 "C04c": dict(breaks=["C04", "C14"], summary="BaseRunner._report_child_runner_heartbeats is throttled to one report per atomic_service_check_interval_minutes (framed as a write-load optimisation): with runner_considered_dead_after_minutes shorter than that interval a live, parent-reported child looks dead and its RUNNING invocation is selected by the running-recovery scan.",
              needs="dead timeout shorter than the service-check interval (fast fail-over configuration), a parent with a live child owning a RUNNING invocation, a recovery scan between timeout and interval after the last report.",
              caught_by={"C04": "C04/hist/*/running-scan/extra, misses, status-after-op (parent-reported heartbeats now go through the real BaseRunner._report_child_runner_heartbeats of a process-runner object with an alive child and a dead sibling; the service-check cadence is randomised)"}, missed_by={"C04 (before)": "'reported by its parent' was a direct register_runner_heartbeats call: the parent-side code was not executed"}),
 "C05c": dict(breaks=["C05"], summary="BaseOrchestrator.set_invocation_exception publishes FAILED before the state backend has stored the exception: a reader in between sees FAILED and gets KeyError instead of the raised exception; a crash in between leaves FAILED without exception for good.",
              needs="a failing task and a reader between the status publication and the exception write.",
              caught_by={"C05": "C05/mem/failed-without-exception/exc/<serializer> (concurrent reader stratum)"}, missed_by={}),
 "C10c": dict(breaks=["C10"], summary="set_invocation_status discards the record returned by the atomic transition and re-reads the current record before add_history: if another runner changes the invocation in between, the first runner records the other's status under its own runner id (own change missing, other's duplicated and misattributed).",
              needs="a second actor transitioning the same invocation between the first one's commit and its history write (recovery, kill, fast re-claim).",
              caught_by={"C10": "C10/sqlite/extra/REROUTED, missing/PENDING, missing/RETRY"}, missed_by={}),
 "C11c": dict(breaks=["C11"], summary="BaseRunner._kill_and_reroute gets a PENDING short-cut (read status; if PENDING reroute directly) placed before the helper's try/except: if the task thread moves PENDING->RUNNING between read and reroute, the transition error escapes _on_stop and the rest of the thread table is never killed / rerouted.",
              needs="a stop while one claimed invocation is between thread start and its RUNNING transition, that thread moving inside the read-to-reroute window, and at least one more invocation later in the thread table.",
              caught_by={"C11": "C11/*/run-raised/InvocationStatusTransitionError/* (strata mem-/sqlite-pending-thread: task threads start late in virtual time, the stop lands while a claimed invocation has its thread but is still PENDING, the loop thread stalls before every effect inside _kill_and_reroute; an exception escaping run() is a violation of 'the stop completes')"}, missed_by={"C11 (before)": "the stop never landed in the thread-started-still-PENDING phase with the thread moving inside one hand-over, and an exception escaping run() with nothing left owned was not reported"}),
 "C14c": dict(breaks=["C14"], summary="ProcessRunner._reclaim_available_slots prunes dead workers by walking inv_id_to_runner_id instead of child_runner_ids: a worker whose invocation entry was overwritten (same invocation dispatched again while the first worker was alive) is never forgotten; one slot is lost per orphan.",
              needs="the same invocation handed to two workers of one ProcessRunner in consecutive iterations (retry / reroute picked up before the old worker exits), then worker deaths.",
              caught_by={"C14": "C14/PR/dead-workers-still-tracked, slots-not-refilled (ProcessRunner re-dispatch scenario: short queue, a held invocation is recovered the way pending recovery does and handed to a second worker while the first lives)"}, missed_by={"C14 (before)": "no invocation was ever dispatched twice to one ProcessRunner"}),
 "C17c": dict(breaks=["C17"], summary="MemClientDataStore keeps payloads in a class-level pool keyed by content hash (dedupe); purge of one app removes the pool entries of every key it owns, including content another app stored too.",
              needs="two in-memory apps in one process externalising identical large content, purge of one, the other's local LRU no longer holding the value.",
              caught_by={"C17": "C17/mem/foreign-state-changed/purge-app/client_data (half of the stored values are content another app may store too; local LRU of 1-2 entries in 3 of 4 runs)"}, missed_by={"C17 (before)": "every stored value was unique and the default LRU (1024) answered every read"}),
 "C19c": dict(breaks=["C19"], summary="ConcurrentInvocation.result: recursive retry turned into a loop that tests retriable-ness with `type(exc) in frozenset(retry_for)` (exact class) while the distributed path keeps matching subclasses.",
              needs="a body raising a strict subclass of a retry_for class (e.g. retry_for=(OSError,), body raises ConnectionError) with max_retries >= 1.",
              caught_by={"C19": "C19/sync-vs-mem/executions/* (exception kinds retry-sub = subclass of RetryError and retriable-sub = subclass of the class listed in retry_for)"}, missed_by={"C19 (before)": "bodies only raised the listed classes themselves"}),
 "C20c": dict(breaks=["C20"], summary="the invocation detail page stores a placeholder RunnerContext through state_backend.store_runner_context when a history entry names a runner whose context is missing ('cache to stop repeated warnings'): a GET creates a runner record.",
              needs="a partially purged store: a history entry whose runner_context_id has no stored context; GET /invocations/{id}.",
              caught_by={"C20": "C20/sqlite/tables/GET /invocations/{id} (the application keeps working after a state-backend purge; the monitor is a second application object on the same database in half of the SQLite runs; exact row counts of all the app's tables are part of the snapshot)"}, missed_by={"C20 (before)": "monitor and application shared one object (and its runner-context cache), nothing happened after the purge, and stored runner contexts were read through that cache"}),
})

def main():
    suite = {}
    p = os.path.join(V, "seeded", "suite_results.json")
    if os.path.exists(p):
        suite = json.load(open(p))
    for sid, t in T.items():
        d = os.path.join(V, "seeded", sid)
        if not os.path.isdir(d):
            continue
        cr = {}
        crp = os.path.join(d, "check_results.json")
        if os.path.exists(crp):
            cr = json.load(open(crp))
        meta = {"id": sid, "breaks": t["breaks"], "summary": t["summary"], "needs_to_manifest": t["needs"],
                "files": {"patch": "patch.diff", "demonstration": f"demo_{sid[:3]}.py"},
                "origin": "fresh sub-agent given only the property text and its own scratch worktree of /repo (nothing from /verif)",
                "confirmed": {"demo_fails_with_change": True, "demo_passes_without_change": True, "suite": suite.get(sid, "not yet run")},
                "what_i_ran": COMMON_RAN, "caught_by": t["caught_by"], "missed_by": t["missed_by"], "last_check_runs": cr,
                "apply": f"git -C /repo apply /verif/seeded/{sid}/patch.diff ; ./check {t['breaks'][0]} ; git -C /repo checkout -- .   (or: tools/try_seeded.py {sid} {' '.join(t['breaks'])})"}
        json.dump(meta, open(os.path.join(d, "meta.json"), "w"), indent=1)
        print("wrote", sid)
main()
