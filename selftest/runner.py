from __future__ import annotations

import sys


def main(argv: list[str]) -> int:
    what = argv[0] if argv else "determinism"
    if what == "sensitivity":
        from selftest import sensitivity

        return sensitivity.main(argv[1:])
    if what == "determinism":
        from selftest import determinism

        return determinism.main(argv[1:])
    if what == "seeded":
        # every change kept under seeded/<id>/ against the quick tier of the property it was written for
        import glob
        import json
        import os
        import subprocess

        v = os.path.dirname(os.path.dirname(os.path.abspath(__file__)))
        ids = [os.path.basename(os.path.dirname(p)) for p in sorted(glob.glob(os.path.join(v, "seeded", "*", "patch.diff")))]
        if argv[1:]:
            ids = [i for i in ids if any(a in i for a in argv[1:])]
        missed = 0
        for sid in ids:
            prop = sid[:3]
            try:
                prop = json.load(open(os.path.join(v, "seeded", sid, "meta.json")))["breaks"][0]
            except Exception:  # noqa: BLE001
                pass
            r = subprocess.run([os.path.join(v, "tools", "try_seeded.py"), sid, prop], capture_output=True, text=True)
            line = next((ln for ln in r.stdout.splitlines() if " vs " in ln), r.stdout[-200:] + r.stderr[-300:])
            print(line[:260], flush=True)
            try:
                res = json.load(open(os.path.join(v, "seeded", sid, "check_results.json")))
                if not res.get(prop, {}).get("caught"):
                    missed += 1
            except Exception:  # noqa: BLE001
                missed += 1
        print(f"seeded: {len(ids) - missed}/{len(ids)} changes caught by the check of the property they break (meta.json: breaks[0])")
        return 1 if missed else 0
    print(f"unknown selftest {what}", file=sys.stderr)
    return 2
