from __future__ import annotations

import sys


def main(argv: list[str]) -> int:
    what = argv[0] if argv else "determinism"
    if what == "sensitivity":
        from selftest import sensitivity

        return sensitivity.main(argv[1:])
    if what == "determinism":
        from selftest import determinism

        return determinism.main(argv[1:])
    print(f"unknown selftest {what}", file=sys.stderr)
    return 2
