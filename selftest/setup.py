"""MANIFEST.setup_cmd: offline set-up.  Nothing is built from /repo (checks
import pynenc from the working tree); this makes sure the interpreter has what
the machinery needs and runs a short determinism smoke test."""

from __future__ import annotations

import os
import subprocess
import sys

VERIF = os.path.dirname(os.path.dirname(os.path.abspath(__file__)))


def main() -> int:
    try:
        import hypothesis  # noqa: F401
    except ImportError:
        r = subprocess.call(["/venv/bin/pip", "install", "--no-index", "--find-links", "/opt/veriftools/wheels", "hypothesis"])
        if r != 0:
            print("could not install hypothesis from the offline wheelhouse", file=sys.stderr)
            return 2
    os.makedirs(os.path.join(VERIF, "evidence"), exist_ok=True)
    os.makedirs(os.path.join(VERIF, "replays"), exist_ok=True)
    import pynenc  # noqa: F401

    from selftest import determinism

    return determinism.main(["--k", "2", "C01", "C02", "C08"])
