#!/bin/bash
# usage: selftest/mkmut.sh <Cxx__name> < python-edit-script (cwd = scratch copy of the repo)
name=$1; d=$(mktemp -d /dev/shm/mk-XXXX); mkdir -p $d/a $d/b
for sub in pynenc pynmon; do rsync -a --exclude __pycache__ /repo/$sub $d/a/; rsync -a --exclude __pycache__ /repo/$sub $d/b/; done
mkdir -p $d/a/docs $d/b/docs; rsync -a /repo/docs/_static $d/a/docs/; rsync -a /repo/docs/_static $d/b/docs/
(cd $d/b && /venv/bin/python - ) || { echo "edit failed $name"; rm -rf $d; exit 1; }
(cd $d && diff -ruN a b > /verif/selftest/mutants/$name.patch; true)
for f in $(cd $d && diff -rq a b | awk '{print $4}' | grep '\.py$'); do /venv/bin/python -m py_compile $d/$f || echo "DOES NOT COMPILE: $f"; done
echo "$name: $(wc -l < /verif/selftest/mutants/$name.patch) lines"
rm -rf $d
