"""Determinism self-test.

For every built check: take the first K seeds of every stratum of the quick
plan and run them (A) in plan order, (B) in reverse order with a different
chunking -- i.e. in fresh interpreters with different predecessors -- and
compare the event-log digests seed by seed.  (C) runs them once more under a
different PYTHONHASHSEED: digests may legitimately differ there (set iteration
order in the in-memory orchestrator); the number is reported, not judged.

  ./check selftest determinism [--k N] [C01 C02 ...]
"""

from __future__ import annotations

import glob
import os
import shutil
import sys
import tempfile
import time

VERIF = os.path.dirname(os.path.dirname(os.path.abspath(__file__)))


def built_checks() -> list[str]:
    return sorted(os.path.basename(p)[:-3].upper() for p in glob.glob(os.path.join(VERIF, "checks", "c[0-9][0-9].py")))


def main(argv: list[str]) -> int:
    sys.path.insert(0, VERIF)
    from simkit import driver

    k = 6
    if "--k" in argv:
        i = argv.index("--k")
        k = int(argv[i + 1])
        argv = argv[:i] + argv[i + 2 :]
    props = [a.upper() for a in argv] or built_checks()
    base = "/dev/shm" if os.access("/dev/shm", os.W_OK) else tempfile.gettempdir()
    bad = 0
    total = 0
    for prop in props:
        mod = driver.load_check(prop)
        plan = mod.plan("quick")
        items = []
        for si, st in enumerate(plan):
            for i in range(min(k, st["runs"])):
                seed = 7 * (1 << 20) + si * (1 << 16) + i
                items.append({"stratum": st["stratum"], "seed": seed, "params": st["params"], "chunk": 3, "hashseed": 4242})
        t0 = time.time()
        wd = tempfile.mkdtemp(prefix="pynenc-verif-det-", dir=base)
        try:
            a, ea, _ = driver.run_items(prop, [dict(i) for i in items], os.path.join(wd, "a"), None)
            rev = [dict(i, chunk=2) for i in reversed(items)]
            b, eb, _ = driver.run_items(prop, rev, os.path.join(wd, "b"), None)
            c, ec, _ = driver.run_items(prop, [dict(i, hashseed=99) for i in items], os.path.join(wd, "c"), None)
        finally:
            shutil.rmtree(wd, ignore_errors=True)
        da = {(r["stratum"], r["seed"]): r.get("digest") for r in a}
        db = {(r["stratum"], r["seed"]): r.get("digest") for r in b}
        dc = {(r["stratum"], r["seed"]): r.get("digest") for r in c}
        diff = [key for key in da if da[key] != db.get(key) or da[key] is None]
        diff_c = [key for key in da if da[key] != dc.get(key)]
        total += len(da)
        errs = ea + eb + ec
        status = "OK" if not diff and not errs and len(da) == len(items) else "FAIL"
        print(f"determinism {prop}: {len(da)} seeds x 2 orders, mismatches={len(diff)} other-hashseed-differs={len(diff_c)} errors={len(errs)} {time.time() - t0:.1f}s {status}", flush=True)
        for key in diff[:5]:
            print("   mismatch", key, da[key], db.get(key))
        for e in errs[:3]:
            print("   error", e[:1500])
        if status != "OK":
            bad += 1
    print(f"determinism: {total} seed pairs compared, {bad} checks failing")
    return 2 if bad else 0


if __name__ == "__main__":
    sys.exit(main(sys.argv[1:]))
