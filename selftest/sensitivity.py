"""Sensitivity self-test: apply a mutant to a scratch copy of the repository,
run the property's quick check against the copy, expect a VIOLATION.

  ./check selftest sensitivity [name-substring ...]

Mutants live in selftest/mutants/<property>__<name>.patch (unified diffs
against /repo).  The scratch copy lives in /dev/shm and is removed afterwards;
evidence and replays of these runs go to a scratch VERIF_OUT, never to /verif.
"""

from __future__ import annotations

import glob
import os
import shutil
import subprocess
import sys
import tempfile
import time

VERIF = os.path.dirname(os.path.dirname(os.path.abspath(__file__)))


def make_scratch(patch: str) -> str:
    base = "/dev/shm" if os.access("/dev/shm", os.W_OK) else tempfile.gettempdir()
    d = tempfile.mkdtemp(prefix="pynenc-mutant-", dir=base)
    for sub in ("pynenc", "pynmon", "docs/_static"):
        src = os.path.join("/repo", sub)
        dst = os.path.join(d, sub)
        os.makedirs(os.path.dirname(dst), exist_ok=True)
        shutil.copytree(src, dst, ignore=shutil.ignore_patterns("__pycache__"))
    r = subprocess.run(["patch", "-p1", "-s", "-d", d, "-i", patch], capture_output=True, text=True)
    if r.returncode != 0:
        shutil.rmtree(d, ignore_errors=True)
        raise RuntimeError(f"patch {patch} does not apply: {r.stdout} {r.stderr}")
    return d


def run_one(patch: str, tier: str = "quick") -> tuple[bool, str, float]:
    name = os.path.basename(patch)[: -len(".patch")]
    prop = name.split("__")[0]
    scratch = make_scratch(patch)
    out = tempfile.mkdtemp(prefix="pynenc-mutant-out-", dir=os.path.dirname(scratch))
    env = dict(os.environ)
    env["VERIF_REPO"] = scratch
    env["VERIF_OUT"] = out
    t0 = time.time()
    try:
        r = subprocess.run([os.path.join(VERIF, "check"), prop, "--tier", tier], capture_output=True, text=True, env=env, timeout=1800)
        caught = r.returncode == 1 and "VIOLATION property=" in r.stdout
        lines = [ln for ln in r.stdout.splitlines() if ln.startswith(("VIOLATION", "  C"))][:4]
        lines += [ln[:90] for ln in r.stdout.splitlines() if ln.startswith("KNOWN")][:2]
        lines += [ln for ln in r.stdout.splitlines() if " runs=" in ln][-1:]
        detail = f"rc={r.returncode} " + " | ".join(lines)
        if r.returncode == 2:
            detail += " STDERR: " + r.stderr[-600:]
    finally:
        shutil.rmtree(scratch, ignore_errors=True)
        shutil.rmtree(out, ignore_errors=True)
    return caught, detail, time.time() - t0


def record(name: str, caught: bool, dt: float, detail: str) -> None:
    """selftest/sensitivity_last.txt: one line per mutant, the most recent outcome (committed with the machinery)."""
    path = os.path.join(VERIF, "selftest", "sensitivity_last.txt")
    rows: dict[str, str] = {}
    if os.path.exists(path):
        with open(path) as f:
            for ln in f:
                if " " in ln:
                    rows[ln.split(" ", 2)[1]] = ln.rstrip("\n")
    sig = [x.strip() for x in detail.split("|") if x.strip().startswith("C")][:2]
    rows[name] = f"{'CAUGHT' if caught else 'MISSED'} {name} {dt:.0f}s {' ; '.join(sig)}"
    with open(path, "w") as f:
        for k in sorted(rows):
            f.write(rows[k] + "\n")


def main(argv: list[str]) -> int:
    patches = sorted(glob.glob(os.path.join(VERIF, "selftest", "mutants", "*.patch")))
    if argv:
        patches = [p for p in patches if any(a in os.path.basename(p) for a in argv)]
    missed = 0
    for p in patches:
        try:
            caught, detail, dt = run_one(p)
        except RuntimeError as e:
            print(f"STALE  {os.path.basename(p)} {str(e)[:200]}", flush=True)
            missed += 1
            continue
        print(f"{'CAUGHT' if caught else 'MISSED'} {os.path.basename(p)} ({dt:.0f}s) {detail[:400]}", flush=True)
        record(os.path.basename(p), caught, dt, detail)
        if not caught:
            missed += 1
    print(f"sensitivity: {len(patches) - missed}/{len(patches)} mutants caught")
    return 1 if missed else 0


if __name__ == "__main__":
    sys.exit(main(sys.argv[1:]))
