"""C01 -- lifecycle state machine, finals absorbing, backends identical.

Engine A (sequential simulation: virtual clock, real orchestrators of both
families, the documented graph as the oracle).  Strata:

  table      the complete single-step space: every reachable (status, owner)
             x 14 requested statuses x 3 requesters, reached through the public
             API along a shortest legal path, on both backends (one source
             state per run; a batch of consecutive seeds covers all of them)
  unknown    the "no current status" row: requests on an id that was never
             registered
  short      all request sequences up to length 3 over a reduced alphabet
             (one first symbol per run)
  sequences  seeded random request sequences (<= 40) over 1-3 invocations

Engine B (threaded simulation), stratum conc-mem / conc-sqlite: two to four
requesters issue raw status requests on the same one or two invocations
concurrently under the seeded scheduler (in-memory: every source line of the
orchestrator is a pre-emption point; SQLite: every statement); the accepted
writes, ordered by the record's own time, must still be a path of the
documented graph with ownership (a request validated against a stale record
shows up as an illegal step or as a final status that was left).
"""

from __future__ import annotations

import hashlib
import itertools
from typing import Any

from models.lifecycle import ALL, FINALS, OWNED, Lifecycle
from simkit import core
from simkit.seq import SeqEnv
from workloads import simtasks

PROPERTY = "C01"
LEVEL = "exploration"
ENGINES = ['A', 'B']
TECHNIQUE = 'deterministic simulation: seeded + enumerated request sequences on both real orchestrators under a virtual clock (sequential engine) and concurrent raw requests under the seeded thread scheduler (threaded engine); oracle = documented lifecycle graph + ownership axioms'
LEVEL_TEXT = 'Every run drives real MemOrchestrator and SQLiteOrchestrator objects through set_invocation_status under the simulated clock and compares outcome class, status, owner and timestamp with a reference lifecycle parsed from the documentation (never from status.py). The single-step table (every reachable (status, owner) x 14 requests x 3 requesters) and all sequences <= 3 over a reduced alphabet are fully covered strata of the seeded generator; longer sequences are sampled. This is exploration: the finite table is covered completely, histories are sampled.'
LEVEL_NOTE = "Trusted: the reference model (models/lifecycle.py), the SVG's data-edge attributes as 'the documented graph', simkit's clock/uuid shims. History writer threads run inline. Unreachable (status, owner) pairs are counted, not tested."
MINIMIZE = "ops"
RULE = (
    "table: one run = one reachable (status, owner) source state x all 42 (requested status, requester) pairs "
    "on both backends through set_invocation_status, compared with the documented graph + ownership axioms; "
    "short: all sequences <= 3 over a 12-symbol alphabet partitioned by first symbol; sequences: seeded random "
    "request sequences <= 40 over 1-3 invocations. A case is non-trivial when at least one request was accepted "
    "and one refused; distinct = distinct hash of the (request, outcome) sequence."
)
ASSUMPTIONS = [
    "observed through the orchestrator = get_invocation_status_record and the error raised by set_invocation_status",
    "the record written at registration may carry the registering client's runner id (REGISTERED is not an owned status)",
    "documented graph = data-edge attributes of docs/_static/invocation_state_machine.svg",
]
REAL = ["status.py", "MemOrchestrator", "SQLiteOrchestrator", "BaseOrchestrator.set_invocation_status", "state backends (history)", "trigger.report_tasks_status", "SQLite engine"]
STUBBED = ["wall clock (virtual)", "uuid4", "history writer threads run inline"]
EXHAUSTIVE_NOTE = "stratum 'table' enumerates every reachable source state when runs >= number of reachable states; stratum 'short' enumerates all sequences <= 3 over the reduced alphabet when runs >= 12"
PROBES = ["accepted", "refused_transition", "refused_ownership", "final_left_attempt", "recovery_override", "concurrent_requests_interleaved"]

REQUESTERS: list[str | None] = [None, "r1", "r2"]
SHORT_ALPHABET = [(s, r) for s in ("PENDING", "RUNNING", "SUCCESS", "KILLED", "REROUTED", "PENDING_RECOVERY") for r in ("r1", "r2")]

_LC: Lifecycle | None = None


def lc() -> Lifecycle:
    global _LC
    if _LC is None:
        _LC = Lifecycle()
    return _LC


def plan(tier: str) -> list[dict]:
    n_seq = 96 if tier == "quick" else 3000
    return [
        {"stratum": "table", "runs": 24, "params": {"mode": "table"}, "chunk": 2},
        {"stratum": "unknown", "runs": 1, "params": {"mode": "unknown"}, "chunk": 1},
        {"stratum": "short", "runs": 12, "params": {"mode": "short"}, "chunk": 1},
        {"stratum": "sequences", "runs": n_seq, "params": {"mode": "seq", "max_len": 40}, "chunk": 16 if tier == "quick" else 64},
        {"stratum": "conc-mem", "runs": 192 if tier == "quick" else 8000, "params": {"mode": "conc", "stack": "mem"}, "chunk": 12 if tier == "quick" else 200},
        {"stratum": "conc-sqlite", "runs": 96 if tier == "quick" else 4000, "params": {"mode": "conc", "stack": "sqlite"}, "chunk": 6 if tier == "quick" else 100},
    ]


def warmup() -> None:
    run(0, {"mode": "seq", "max_len": 5})


class Ctx:
    """Minimal runner context: set_invocation_status only needs runner_id and
    what store_runner_context reads."""

    def __init__(self, rid: str | None) -> None:
        from pynenc.runner.runner_context import RunnerContext

        self.ctx = RunnerContext(runner_cls="SimRunner", runner_id=rid)  # type: ignore[arg-type]


def _status_enum(name: str) -> Any:
    from pynenc.invocation.status import InvocationStatus

    return InvocationStatus[name]


def _read(app: Any, inv_id: str) -> tuple[str, str | None, float] | None:
    try:
        rec = app.orchestrator.get_invocation_status_record(inv_id)
    except KeyError:
        return None
    return (rec.status.name, rec.runner_id, round(rec.timestamp.timestamp(), 6))


def _request(app: Any, inv_id: str, status: str, ctx: Any) -> str:
    from pynenc.exceptions import InvocationStatusOwnershipError, InvocationStatusTransitionError

    try:
        app.orchestrator.set_invocation_status(inv_id, _status_enum(status), ctx)
        return "ok"
    except InvocationStatusTransitionError:
        return "transition"
    except InvocationStatusOwnershipError:
        return "ownership"
    except KeyError:
        return "keyerror"
    except Exception as e:  # noqa: BLE001
        return f"other:{type(e).__name__}"


class Harness:
    def __init__(self, env: SeqEnv) -> None:
        self.env = env
        self.sim = env.sim
        self.tasks = {}
        for st, app in env.apps.items():
            from simkit import apps as _apps

            self.tasks[st] = _apps.register(app, simtasks.add)
        self.ctxs = {r: Ctx(r).ctx for r in REQUESTERS}
        self.viol: list[dict] = []
        self.stats: dict[str, int] = {}
        self.trace: list[tuple] = []
        self.counter = 0

    def bump(self, k: str) -> None:
        self.stats[k] = self.stats.get(k, 0) + 1

    def new_invocation(self) -> dict[str, str]:
        """Register one invocation on every backend through the public API."""
        self.counter += 1
        ids = {}
        for st, t in self.tasks.items():
            inv = t(self.counter, 1)
            ids[st] = inv.invocation_id
        return ids

    def registrar(self, st: str, inv_id: str) -> str | None:
        r = _read(self.env.apps[st], inv_id)
        return r[1] if r else None

    def violation(self, kind: str, cur: Any, req: str, who: str | None, msg: str) -> None:
        cs = cur[0] if cur else "NONE"
        rel = "none" if who is None else ("owner" if cur and who == cur[1] else "other")
        sig = f"C01/{kind}/{cs}->{req}/by={rel}"
        self.viol.append({"signature": sig, "message": msg})

    def do(self, ids: dict[str, str], model_state: Any, req: str, who: str | None) -> Any:
        """One request on all backends + model; returns the new model state."""
        self.sim.advance(0.001 + self.sim.rng_work.random() * 0.01)
        exp, nxt = lc().step(model_state, req, who)
        if exp == "ok":
            self.bump("probe.accepted")
            if model_state and model_state[0] in OWNED and who != model_state[1]:
                self.bump("probe.recovery_override")
        else:
            self.bump(f"probe.refused_{exp}")
            if model_state and model_state[0] in FINALS:
                self.bump("probe.final_left_attempt")
        outs = {}
        for st, app in self.env.apps.items():
            before = _read(app, ids[st])
            t0 = self.sim.now
            out = _request(app, ids[st], req, self.ctxs[who])
            t1 = self.sim.now
            after = _read(app, ids[st])
            outs[st] = (out, after)
            cur_desc = f"{model_state} (backend {st}: {before})"
            if exp == "ok":
                if out != "ok":
                    self.violation(f"refused-legal/{st}/{out}", model_state, req, who, f"{st}: legal request {req} by {who} from {cur_desc} was refused with {out}")
                    continue
                if after is None or after[0] != nxt[0]:
                    self.violation(f"wrong-status/{st}", model_state, req, who, f"{st}: after accepted {req} record is {after}, expected status {nxt[0]}")
                elif after[1] != nxt[1]:
                    self.violation(f"wrong-owner/{st}", model_state, req, who, f"{st}: after accepted {req} by {who} from {cur_desc} owner is {after[1]!r}, expected {nxt[1]!r}")
                elif not (t0 - 2e-6 <= after[2] <= t1 + 2e-6):
                    self.violation(f"timestamp/{st}", model_state, req, who, f"{st}: accepted change stamped {after[2]} outside the call interval [{t0}, {t1}]")
            else:
                if out == "ok":
                    self.violation(f"accepted-illegal/{st}/{exp}", model_state, req, who, f"{st}: request {req} by {who} from {cur_desc} must be refused ({exp}) but was accepted -> {after}")
                elif out not in ("transition", "ownership"):
                    self.violation(f"wrong-error/{st}/{out}", model_state, req, who, f"{st}: refused request {req} by {who} from {cur_desc} raised {out}, not a status error")
                if out != "ok" and after != before:
                    self.violation(f"changed-on-refusal/{st}", model_state, req, who, f"{st}: refused request {req} changed the record {before} -> {after}")
        vals = list(outs.values())
        if len(vals) == 2:
            (o1, a1), (o2, a2) = vals
            if o1 != o2:
                self.violation(f"backends-differ/outcome/{o1}-vs-{o2}", model_state, req, who, f"outcome differs between backends for {req} by {who} from {model_state}: {outs}")
            elif (a1 is None) != (a2 is None) or (a1 and a2 and (a1[0], a1[1]) != (a2[0], a2[1])):
                self.violation("backends-differ/record", model_state, req, who, f"records differ between backends after {req} by {who} from {model_state}: {outs}")
        self.trace.append((model_state[0] if model_state else None, req, who, exp))
        return nxt if exp == "ok" else model_state


def _result(h: Harness, sample: Any, ops: Any = None) -> dict:
    tr = repr(h.trace).encode()
    outcomes = {t[3] for t in h.trace}
    return {
        "violations": h.viol,
        "stats": h.stats,
        "steps": len(h.trace),
        "sim_time": round(h.sim.now - h.sim.epoch, 4),
        "sched_hash": hashlib.sha256(tr).hexdigest()[:16],
        "states": sorted({hash((t[0], t[2] is None)) & 0xFFFFFFFF for t in h.trace}),
        "nontrivial": "ok" in outcomes and len(outcomes) > 1,
        "sample": sample,
        "ops": ops,
        "digest": hashlib.sha256(tr + repr(sorted(v["signature"] for v in h.viol)).encode()).hexdigest(),
    }


CONC_TRACE = ["orchestrator/base_orchestrator.py", "orchestrator/mem_orchestrator.py"]


def _run_conc(seed: int, stack: str, replay: dict | None) -> dict:
    import random

    from pynenc.runner.runner_context import RunnerContext
    from simkit.world import World, check_transition_paths

    rng = random.Random(f"{seed}:c01conc")
    n_req = rng.choice([2, 2, 3, 4])
    policy = rng.choice(["rand", "rand", "pct", "rr"])
    parg = {"rand": rng.choice([0.1, 0.25, 0.5]), "pct": rng.choice([1, 2, 3]), "rr": rng.choice([1, 2, 3])}[policy]
    actors = [f"r{i + 1}" for i in range(n_req)]
    n_inv = rng.choice([1, 1, 2])
    # a legal prefix brings the invocation somewhere interesting, then everybody fires requests at once
    prefix = rng.choice([[], [("PENDING", "r1")], [("PENDING", "r1"), ("RUNNING", "r1")], [("PENDING", "r1"), ("RUNNING", "r1"), ("SUCCESS", "r1")], [("PENDING", "r1"), ("RUNNING", "r1"), ("RETRY", "r1")], [("PENDING", "r1"), ("RUNNING", "r1"), ("PAUSED", "r1")]])
    # each requester follows its own plausible continuation of the prefix (what it would do if it were alone),
    # sprinkled with arbitrary requests: several of them are legal from the same state, so they collide
    def plan_for(a: str) -> list[tuple[int, str]]:
        out = []
        cur: dict[int, tuple[str, Any]] = {}
        for _ in range(rng.randint(2, 5)):
            k = rng.randrange(n_inv)
            state = cur.get(k)
            if state is None:
                state = ("REGISTERED", None)
                for st_, who in prefix:
                    o_, nx = lc().step(state, st_, who)
                    state = nx if o_ == "ok" else state
            legal = [s_ for s_ in sorted(ALL) if s_ != "REGISTERED" and lc().step(state, s_, a)[0] == "ok"]
            if legal and rng.random() < 0.7:
                s_ = rng.choice(legal)
                cur[k] = lc().step(state, s_, a)[1]
            else:
                s_ = rng.choice(sorted(set(ALL) - {"REGISTERED"}))
            out.append((k, s_))
        return out

    plans = {a: plan_for(a) for a in actors}
    schedule = replay.get("schedule") if replay else None
    viol: list[dict] = []
    with World(seed, stack, actors, policy=policy, policy_arg=parg, schedule=schedule, trace_files=CONC_TRACE if stack == "mem" else None, max_steps=40000, conf={"cached_status_time": 0.0}) as w:
        sim = w.sim
        tasks = w.register(simtasks.add)
        ids = [str(tasks["r1"](i, 1).invocation_id) for i in range(n_inv)]
        ctxs = {a: RunnerContext(runner_cls="SimRunner", runner_id=a) for a in actors}
        for st_, who in prefix:
            for i in ids:
                w.apps[who].orchestrator.set_invocation_status(i, _status_enum(st_), ctxs[who])
        outcomes: list[tuple[str, str, str, str]] = []

        def main_of(a: str) -> Any:
            def main() -> None:
                app = w.apps[a]
                for k, st_ in plans[a]:
                    try:
                        app.orchestrator.set_invocation_status(ids[k], _status_enum(st_), ctxs[a])
                        outcomes.append((a, w.alias(ids[k]), st_, "ok"))
                    except Exception as e:  # noqa: BLE001  refusals are expected
                        outcomes.append((a, w.alias(ids[k]), st_, type(e).__name__))

            return main

        w.run([(a, "main", main_of(a)) for a in actors])
        common = w.result_common()
        st = common["stats"]
        if sim.abort_reason:
            common["inconclusive"] = True
        for n, e in sim.thread_exceptions:
            viol.append({"signature": f"C01/conc/{stack}/thread-died/{type(e).__name__}", "message": f"{n}: {type(e).__name__}: {e}"})
        for sig, msg in check_transition_paths(w.tlog, lc()):
            viol.append({"signature": f"C01/conc/{stack}/{sig}", "message": msg + f"; requests: {outcomes}"})
        bad = [o for o in outcomes if o[3] not in ("ok", "InvocationStatusTransitionError", "InvocationStatusOwnershipError", "InvocationStatusRaceConditionError")]
        for o in bad:
            viol.append({"signature": f"C01/conc/{stack}/unexpected-error/{o[3]}", "message": f"request {o[2]} by {o[0]} on {o[1]} raised {o[3]} (neither accepted nor a status error)"})
        n_ok = sum(1 for o in outcomes if o[3] == "ok")
        st["probe.accepted"] = n_ok
        st["probe.refused_transition"] = sum(1 for o in outcomes if o[3] == "InvocationStatusTransitionError")
        st["probe.refused_ownership"] = sum(1 for o in outcomes if o[3] == "InvocationStatusOwnershipError")
        st["probe.concurrent_requests_interleaved"] = 1 if len(sim.switch_sites) > 0 else 0
        common.update(
            {
                "violations": viol,
                "nontrivial": n_ok >= 1 and n_ok < len(outcomes) and len(sim.switch_sites) > 0,
                "sample": {"stack": stack, "requesters": n_req, "policy": [policy, parg], "prefix": prefix, "plans": {a: [[k, s_] for k, s_ in pl] for a, pl in plans.items()}, "outcomes": [list(o) for o in outcomes][:20]},
            }
        )
        return common


def run(seed: int, params: dict, replay: dict | None = None) -> dict:
    mode = params["mode"]
    if mode == "conc":
        return _run_conc(seed, params["stack"], replay)
    with SeqEnv(seed) as env:
        h = Harness(env)
        if replay and replay.get("ops") is not None:
            return _run_ops(h, replay["ops"])
        if mode == "table":
            return _run_table(h, seed)
        if mode == "unknown":
            return _run_unknown(h)
        if mode == "short":
            return _run_short(h, seed)
        return _run_seq(h, seed, params)


def _drive(h: Harness, path: list) -> tuple[dict[str, str], Any]:
    ids = h.new_invocation()
    regs = {st: h.registrar(st, i) for st, i in ids.items()}
    if len(set(regs.values())) != 1:
        h.viol.append({"signature": "C01/backends-differ/registrar", "message": f"registering runner differs: {regs}"})
    state: Any = ("REGISTERED", next(iter(regs.values())))
    for req, who in path:
        state = h.do(ids, state, req, who)
    return ids, state


def _run_ops(h: Harness, ops: list) -> dict:
    """ops: list of [invocation_index, requested status, requester]."""
    invs: dict[int, tuple[dict, Any]] = {}
    for idx, req, who in ops:
        if idx not in invs:
            invs[idx] = _drive(h, [])
        ids, state = invs[idx]
        state = h.do(ids, state, req, who)
        invs[idx] = (ids, state)
    return _result(h, {"ops": ops}, ops)


def _run_table(h: Harness, seed: int) -> dict:
    any_id = h.new_invocation()
    registrar = h.registrar("mem", any_id["mem"])
    paths = lc().reachable(registrar, REQUESTERS)
    states = sorted(paths, key=lambda s: (ALL.index(s[0]), str(s[1])))
    idx = (seed & 0xFFFF) % len(states)
    src = states[idx]
    h.stats["table.reachable_states"] = len(states)
    h.stats["table.unreachable_pairs"] = 15 * 3 - len(states) - 1
    ops_done = []
    for req, who in itertools.product(ALL, REQUESTERS):
        ids, state = _drive(h, paths[src])
        if state != src:
            h.viol.append({"signature": f"C01/unreachable/{src[0]}", "message": f"could not drive an invocation to {src} along {paths[src]}: model says {state}"})
            break
        h.do(ids, state, req, who)
        ops_done.append([req, who])
    return _result(h, {"source_state": list(src), "path": paths[src], "requests": len(ops_done)})


def _run_unknown(h: Harness) -> dict:
    """Requests on an id that does not exist: nothing may come into being and
    both backends must answer alike."""
    n = 0
    for req, who in itertools.product(ALL, REQUESTERS):
        n += 1
        fake = f"00000000-0000-4000-8000-{n:012d}"
        outs = {}
        for st, app in h.env.apps.items():
            out = _request(app, fake, req, h.ctxs[who])
            after = _read(app, fake)
            outs[st] = (out, after)
            if out == "ok" or after is not None:
                h.violation(f"unknown-id-created/{st}", None, req, who, f"{st}: request {req} on an unknown invocation id answered {out} and left record {after}")
        (o1, _), (o2, _) = outs["mem"], outs["sqlite"]
        if o1 != o2:
            h.violation(f"backends-differ/unknown-id/{o1}-vs-{o2}", None, req, who, f"unknown invocation id, request {req} by {who}: mem -> {o1}, sqlite -> {o2}")
        h.trace.append((None, req, who, o1))
    return _result(h, {"unknown_id_requests": n})


def _run_short(h: Harness, seed: int) -> dict:
    first = SHORT_ALPHABET[(seed & 0xFFFF) % len(SHORT_ALPHABET)]
    n = 0
    for length in (1, 2, 3):
        for rest in itertools.product(SHORT_ALPHABET, repeat=length - 1):
            _drive(h, [first, *rest])
            n += 1
    return _result(h, {"first": list(first), "sequences": n})


def _run_seq(h: Harness, seed: int, params: dict) -> dict:
    rng = h.sim.rng_work
    n_inv = rng.randint(1, 3)
    invs = [_drive(h, []) for _ in range(n_inv)]
    ops = []
    length = rng.randint(3, params.get("max_len", 40))
    for _ in range(length):
        i = rng.randrange(n_inv)
        ids, state = invs[i]
        if rng.random() < 0.6:
            legal = [(r, w) for r in ALL for w in REQUESTERS if lc().step(state, r, w)[0] == "ok"]
            req, who = rng.choice(legal) if legal else (rng.choice(ALL), rng.choice(REQUESTERS))
        else:
            req, who = rng.choice(ALL), rng.choice(REQUESTERS)
        state = h.do(ids, state, req, who)
        invs[i] = (ids, state)
        ops.append([i, req, who])
    return _result(h, {"ops": ops[:12], "len": len(ops), "invocations": n_inv}, ops)
