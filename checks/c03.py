"""C03 -- no accepted invocation is lost when a process dies at any step.

Engine B, fault enumeration over crash points.  A deployment of simulated
processes on one SQLite file (every process has its own Pynenc object): a
client, a victim-capable runner r1, a surviving runner r2 with the *real*
atomic global services (trigger loop -> cron -> recover_pending / recover_running
core tasks) running in virtual time, and an observer that belongs to the
harness.  One hard crash (SIGKILL semantics: all threads of the process stop at
once, open transactions roll back, nothing of the process runs again) is
injected at the K-th backend statement of the victim process; K is swept by
the seed so that consecutive seeds cover the statements of the scenario, the
schedule of everything else is seeded.  The fault-free stratum runs the same
scenarios without a crash.

Roles (victims): client routing single calls, parallelize non-batch and batch;
runner claiming; worker executing incl. retry; reroute on concurrency control;
kill-and-reroute on stop; the process that executes a recovery core task
(pending / running); a worker *process* of a PersistentProcessRunner (r1 is
then the parent with two simulated worker processes running the real
`persistent_process_main`; the parent prunes and replaces the dead worker).

The fault-free strata run the same scenarios without a crash; one of them has a
live but slow runner (its task threads start late in virtual time and come
back in the middle of a pending-recovery run), so the recovery services race
with live owners.

Oracle (end to end): every accepted call (the submitting function had returned
before the crash) reaches a final status within the virtual budget while r2 and
the recovery services keep running, and if SUCCESS / FAILED its body completed
at least once.  CONCURRENCY_CONTROLLED_FINAL is accepted without a body run.
A stranded invocation is reported with where it is stranded (status, queued or
not, owner) and the last backend effect the victim completed.
"""

from __future__ import annotations

import random
from typing import Any

from models.lifecycle import AVAILABLE, FINALS
from workloads import gen, simtasks
from workloads.deploy import Deployment

PROPERTY = "C03"
LEVEL = "fault_enumeration"
ENGINES = ["B"]
TECHNIQUE = "deterministic simulation with fault injection: one SIGKILL of a simulated process at the K-th SQL statement of the victim (K swept by the seed), survivors run the real runner loop + atomic services + recovery core tasks in virtual time; end-to-end oracle over accepted invocations"
LEVEL_TEXT = (
    "The crash point is enumerated by statement index: run i of a batch kills the victim process immediately before its K(i)-th statement "
    "on a shared table (every backend effect is one or more such statements; 'before statement n+1' is 'after effect n'), so a batch of "
    "consecutive seeds sweeps the effect boundaries of each role; the evidence reports the distinct (role, table, statement kind, K) hit. "
    "After the crash a surviving runner with the real recovery services runs for up to 130 virtual seconds; every invocation the client had "
    "been handed must become final and have run. Everything else (workload, interleaving) is seeded; the fault-free strata check the same "
    "scenarios without a crash, one of them with a stalled live worker whose start delays end inside the pending-recovery run (fault placement)."
)
LEVEL_NOTE = "Trusted: simkit crash semantics (threads unwound with a BaseException, later seam calls of the dead process refused, transactions rolled back), virtual-time recovery configuration (max_pending 3 s, dead-after 12 s, crons every minute), body probe. SQLite stack only (processes are real there); the in-memory family has no separate processes to kill."
MINIMIZE = "schedule"
MINIMIZE_BUDGET = 10  # one run costs up to a few seconds (130 virtual seconds of runner loop)
RULE = (
    "one run = role (client-single / client-par / client-batch / runner / recovery-task process / persistent-process worker / none) x workload (flat, tree, retry, keyed-reroute, stop) x crash step K x "
    "seeded schedule; non-trivial = the crash fired while at least one accepted invocation was not final; distinct = distinct "
    "(role, last completed effect of the victim, switch-site hash)."
)
ASSUMPTIONS = [
    "an accepted call is one whose submitting function returned to the caller before the fault",
    "'as long as some runner stays alive and the recovery services keep running': r2 is never killed and runs the atomic services",
    "a final status reached without running the body is legitimate only for CONCURRENCY_CONTROLLED_FINAL",
]
REAL = ["Task.__call__ / parallelize / route_call(s)", "BaseRunner.run + _check_atomic_services", "ThreadRunner", "PersistentProcessRunner parent loop + persistent_process_main (worker main)", "trigger loop + cron conditions + core tasks", "SQLite orchestrator / broker / state backend / trigger store", "SQLite engine"]
STUBBED = ["process death (simulated SIGKILL)", "multiprocessing.Process / Manager (a worker process is a simulated process with its own Pynenc object)", "thread / process scheduling", "clock", "uuid4"]
PROBES = ["crash_fired", "crash_with_inflight_work", "recovered_pending", "recovered_running", "popped_not_claimed_at_crash", "status_written_not_requeued_at_crash", "recovery_lost_race_with_live_owner", "dead_worker_replaced", "sub_invocations_examined", "waiting_for_stranded_sub_invocation", "worker_start_stalled", "stalled_workers_resumed_inside_recovery_run"]

ROLE_NAME = {"recovery": "r1", "w": "ppr-worker"}
BUDGET_S = 130.0  # dead-after 12 s + next cron minute (<= 60 s) + execution, with margin

CONF = {
    "max_pending_seconds": 3.0,
    "runner_considered_dead_after_minutes": 0.2,
    "atomic_service_interval_minutes": 0.2,
    "atomic_service_spread_margin_minutes": 0.02,
    "atomic_service_check_interval_minutes": 0.03,
    "recover_pending_invocations_cron": "* * * * *",
    "recover_running_invocations_cron": "* * * * *",
    "runner_loop_sleep_time_sec": 0.5,
    "invocation_wait_results_sleep_time_sec": 0.05,
}


def plan(tier: str) -> list[dict]:
    q = tier == "quick"
    return [
        {"stratum": "crash-client", "runs": 96 if q else 8000, "params": {"victim": "c"}, "chunk": 6 if q else 100},
        {"stratum": "crash-runner", "runs": 240 if q else 16000, "params": {"victim": "r1"}, "chunk": 15 if q else 100},
        {"stratum": "crash-ppr-worker", "runs": 96 if q else 8000, "params": {"victim": "w"}, "chunk": 6 if q else 40},
        {"stratum": "crash-recovery-task", "runs": 64 if q else 6000, "params": {"victim": "recovery"}, "chunk": 4 if q else 60},
        {"stratum": "fault-free", "runs": 32 if q else 2000, "params": {"victim": None}, "chunk": 4 if q else 50},
        {"stratum": "fault-free-ppr", "runs": 48 if q else 3000, "params": {"victim": None, "ppr": True}, "chunk": 4 if q else 40},
        {"stratum": "fault-free-stalled-worker", "runs": 80 if q else 4000, "params": {"victim": None, "stalled": True}, "chunk": 4 if q else 60},
    ]


WALL_CAP = {"quick": 240, "thorough": 2400}


def warmup() -> None:
    run(3, {"victim": None})


def run(seed: int, params: dict, replay: dict | None = None) -> dict:
    from pynenc.conf.config_task import ConcurrencyControlType as CC

    victim = params["victim"]
    rng = random.Random(f"{seed}:c03")
    idx = seed & 0xFFFF
    policy = rng.choice(["rand", "rand", "rr"])
    parg = {"rand": rng.choice([0.1, 0.3]), "rr": rng.choice([1, 3])}[policy]
    if victim == "c":
        kind = ["single", "par", "batch"][idx % 3]
        K = 1 + (idx // 3) % 60
    elif victim == "r1":
        kind = ["flat", "retry", "tree", "keyed", "stop"][idx % 5]
        K = 1 + ((idx // 5) * 3) % 240
    elif victim == "w":
        # a worker process of a PersistentProcessRunner (r1 = parent with two workers) is killed at its K-th statement
        kind = ["flat", "retry", "tree", "keyed"][idx % 4]
        K = 1 + ((idx // 4) * 3) % 200
    elif victim == "recovery":
        # the process that happens to execute a recovery core task is killed at the K-th statement of
        # that body; recovery is made busy without any other fault by limits below normal latencies
        kind = ["recover-pending", "recover-running"][idx % 2]
        K = 1 + (idx // 2) % 40
    elif params.get("ppr"):
        # nothing dies; r1 is a PersistentProcessRunner with two worker processes (the invariant must hold without any fault too)
        kind = rng.choice(["flat", "retry", "tree", "keyed", "keyed"])
        K = 0
    elif params.get("stalled"):
        # nothing dies: one live runner is merely slow to start what it claimed, so the pending-recovery
        # service races with live owners (the invariant must hold at every step without any crash too)
        kind = "stalled"
        K = 0
    else:
        kind = rng.choice(["single", "par", "batch", "flat", "retry", "tree", "keyed"])
        K = 0
    names = gen.Names()
    n_jobs = rng.randint(2, 4)
    if kind == "tree":
        roots = [gen.gen_prog(rng, names, depth=2, p_kids=0.9, p_fail=0.0, work=(0.0, 0.02)) for _ in range(rng.randint(1, 2))]
    elif kind == "retry":
        roots = [gen.gen_prog(rng, names, depth=0, p_fail=0.9, max_fail=2, excs=("retry",), work=(0.0, 0.02)) for _ in range(n_jobs)]
    elif victim == "recovery":
        roots = [gen.gen_prog(rng, names, depth=0, p_fail=0.0, work=(0.5, 1.0, 2.0)) for _ in range(rng.randint(4, 6))]
    elif kind == "stalled":
        roots = [gen.gen_prog(rng, names, depth=0, p_fail=0.0, work=(0.1, 0.5, 1.0)) for _ in range(rng.randint(6, 10))]
        second_wave = [gen.gen_prog(rng, names, depth=0, p_fail=0.0, work=(0.1, 0.5)) for _ in range(rng.randint(6, 10))] if rng.random() < 0.4 else []
    else:
        roots = [gen.gen_prog(rng, names, depth=0, p_fail=0.0, work=(0.01, 0.05)) for _ in range(n_jobs)]
    schedule = replay.get("schedule") if replay else None
    viol: list[dict] = []
    conf = dict(CONF, max_threads=rng.choice([1, 2]))
    n_runners = 2
    if victim == "recovery":
        n_runners = 3
        if kind == "recover-pending":
            conf.update({"max_pending_seconds": 1.0, "max_threads": 1})
        else:
            conf.update({"runner_considered_dead_after_minutes": 0.004})
    if kind == "stalled":
        n_runners = 3
        conf.update({"max_pending_seconds": rng.choice([0.3, 0.5]), "max_threads": rng.choice([2, 3, 4])})
    extra_kw: dict[str, Any] = {}
    if victim == "w" or params.get("ppr"):
        # the workers poll without pause: a statement costs 2 virtual ms here, so a virtual minute stays affordable
        extra_kw = {"ppr": {"r1": 2}, "delta": 2e-3}
    with Deployment(seed, "sqlite", n_runners, clients=["c", "z"], services=True, policy=policy, policy_arg=parg, schedule=schedule, max_steps=900_000, max_time=330.0, conf=conf, **extra_kw) as d:
        sim = d.sim
        w = d.w
        if victim == "recovery" and kind == "recover-pending":
            # a stalled worker: r3's task threads start arbitrarily late, so what r3 claims stays PENDING
            sim.lazy_prefixes = ("r3/t",)
        stalled_evts: list[Any] = []
        stall: dict[str, Any] = {"n": 0, "wake_at": None, "mode": None, "countdown": None, "seen_pr": 0, "offset": 0}
        if kind == "stalled":
            from simkit.core import SimEvent

            rng_stall = random.Random(f"{seed}:c03:stall")
            lim_ = conf["max_pending_seconds"]

            def start_delay(th: Any) -> float:
                # r3 is slow to start what it claimed: the thread waits (virtual time) before its first statement;
                # some stalls end by themselves, the others end in the middle of the next pending-recovery run
                if th.name.startswith("r3/t") and rng_stall.random() < 0.8:
                    sim.bump("probe.worker_start_stalled")
                    ev = SimEvent()
                    stalled_evts.append(ev)
                    ev.wait(rng_stall.choice([1.5, 3.0, 8.0, 70.0]) * lim_ + rng_stall.uniform(0.0, 1.2))
                return 0.0

            sim.start_delay = start_delay
            stall["wake_at"] = rng_stall.randint(1, 14)
            stall["mode"] = rng_stall.choice(["after-first-transition", "after-first-transition", "nth-statement"])
            stall["offset"] = rng_stall.randint(0, 3)
        d.register(simtasks.prog, max_retries=2)
        d.register(simtasks.keyed, running_concurrency=CC.KEYS, key_arguments=("key",), reroute_on_concurrency_control=True)
        accepted: list[str] = []
        state: dict[str, Any] = {"crashed_at": None, "site": None, "last_effect": None, "client_done": False, "count": 0}
        victim_actor = sim.actor(victim) if victim in ("c", "r1") else (sim.actor("r1w1") if victim == "w" else None)
        r1 = d.runners["r1"]
        dead: dict[str, Any] = {"runner_id": r1.runner_id if victim == "r1" else None}

        def in_recovery_body(name: str) -> bool:
            from pynenc import context

            inv = context.get_dist_invocation_context("simapp")
            try:
                return inv is not None and inv.task.task_id.func_name == name
            except Exception:  # noqa: BLE001
                return False

        def hook(th: Any, kind_: str, detail: Any) -> None:
            nonlocal victim_actor
            if state["crashed_at"] is not None or kind_ != "sql":
                return
            if kind == "stalled":
                # fault placement: the stalled workers come back inside the recovery run (between its scan and its transitions)
                if th.kind == "t" and stalled_evts and in_recovery_body("recover_pending_invocations"):
                    n_pr = sum(1 for e in w.tlog if e["status"] == "PENDING_RECOVERY")
                    if stall["mode"] == "after-first-transition":
                        # resume right after this recovery run has moved its first invocation
                        if n_pr > stall["seen_pr"] and stall["countdown"] is None:
                            stall["countdown"] = stall["offset"]
                        if stall["countdown"] is not None:
                            stall["countdown"] -= 1
                        fire = stall["countdown"] is not None and stall["countdown"] < 0
                    else:
                        stall["n"] += 1
                        fire = stall["n"] == stall["wake_at"]
                    if fire:
                        sim.bump("probe.stalled_workers_resumed_inside_recovery_run")
                        for ev in stalled_evts:
                            ev.set()
                        stalled_evts.clear()
                        stall.update({"n": 0, "countdown": None, "seen_pr": n_pr})
                return
            if victim == "recovery":
                want = "recover_pending_invocations" if kind == "recover-pending" else "recover_running_invocations"
                if th.kind != "t" or not in_recovery_body(want):
                    return
                if victim_actor is None:
                    victim_actor = th.actor
                    dead["runner_id"] = d.runners[th.actor.name].runner_id
                elif th.actor is not victim_actor:
                    return
            elif victim_actor is None or th.actor is not victim_actor:
                return
            state["count"] += 1
            if state["count"] >= K:
                state["crashed_at"] = sim.now
                state["site"] = detail
                sim.bump("probe.crash_fired")
                sim.crash_actor(victim_actor, f"before {detail} (statement {K})")
            else:
                state["last_effect"] = detail

        sim.fault_hook = hook

        def client() -> None:
            try:
                if kind in ("single", "flat", "retry", "tree", "stop", "stalled"):
                    t = d.task("c", "prog")
                    for r in roots:
                        inv = t(r)
                        accepted.append(str(inv.invocation_id))
                    if kind == "stalled" and second_wave:
                        # a second wave around the next cron minute (the recovery services run once a minute)
                        b = 60.0 - (sim.epoch % 60.0)
                        if b < 8.0:
                            b += 60.0
                        sim.sleep(max(0.0, sim.epoch + b - 3.0 - sim.now))
                        for r in second_wave:
                            inv = t(r)
                            accepted.append(str(inv.invocation_id))
                            sim.sleep(0.4)
                elif kind == "keyed":
                    t = d.task("c", "keyed")
                    if victim == "w" or params.get("ppr"):
                        # more keys, uneven work: a poll then meets a blocked invocation followed by a runnable one
                        rk = random.Random(f"{seed}:c03:keyed")
                        for j in range(rk.randint(6, 9)):
                            inv = t(rk.choice([0, 0, 1, 2]), j, rk.choice([0.02, 0.05, 0.15, 0.3]))
                            accepted.append(str(inv.invocation_id))
                    else:
                        for j in range(n_jobs + 1):
                            inv = t(j % 2, j, 0.05)
                            accepted.append(str(inv.invocation_id))
                else:
                    t = d.task("c", "prog")
                    if kind == "par":
                        t.conf.parallel_batch_size = 0
                    grp = t.parallelize([(r,) for r in roots])
                    accepted.extend(str(i.invocation_id) for i in grp.invocations)
                if kind == "stop":
                    # r1 is asked to stop while it works; the crash may land inside its kill-and-reroute
                    sim.sleep(rng.choice([0.02, 0.05, 0.1]))
                    r1.running = False
            finally:
                state["client_done"] = True

        def observer() -> None:
            app = d.app("z")
            while not state["client_done"]:
                sim.sleep(0.05)
            deadline = sim.now + BUDGET_S
            while sim.now < deadline:
                if accepted and all(app.orchestrator.get_invocation_status(i).is_final() for i in accepted):
                    # let history writers and re-queues settle
                    sim.sleep(0.5)
                    break
                if not accepted:
                    break
                sim.sleep(1.0)
            sim.stop_run("scenario-done")

        d.run({"c": client, "z": observer})
        common = w.result_common()
        st = common["stats"]
        crashed = state["crashed_at"] is not None
        if victim == "w" and "r1w1" in d.worker_procs:
            dead["runner_id"] = d.worker_procs["r1w1"].kwargs.get("child_runner_id")
            if crashed and len(d.worker_procs) > 2:
                st["probe.dead_worker_replaced"] = 1
        if sim.abort_reason != "scenario-done":
            common["inconclusive"] = True
        else:
            app = d.app("z")
            queue: list[str] = []
            while True:
                m = app.broker.retrieve_invocation()
                if m is None or len(queue) > 500:
                    break
                queue.append(str(m))
            bodies_done: dict[str, int] = {}
            for b in w.body:
                if b["ev"] == "exit":
                    bodies_done[b["inv"]] = bodies_done.get(b["inv"], 0) + 1
            for e in w.tlog:
                if e["status"] == "PENDING_RECOVERY":
                    st["probe.recovered_pending"] = st.get("probe.recovered_pending", 0) + 1
                if e["status"] == "RUNNING_RECOVERY":
                    st["probe.recovered_running"] = st.get("probe.recovered_running", 0) + 1
            n_lost = sum(1 for r_ in w.refused if r_["status"] in ("PENDING_RECOVERY", "RUNNING_RECOVERY"))
            if n_lost:
                st["probe.recovery_lost_race_with_live_owner"] = n_lost
            inflight = False
            blocked_behind: list[str] = []
            # is a recovery core task itself held by the dead runner?  (its TASK-level running
            # concurrency then turns every later instance into CONCURRENCY_CONTROLLED_FINAL)
            blocked_service = {"PENDING": False, "RUNNING": False}
            last_by_inv: dict[str, dict] = {}
            for e in sorted(w.tlog, key=lambda e: (e["ts"], e["seq"])):
                last_by_inv[e["inv"]] = e
            for inv_, e in last_by_inv.items():
                if e["status"] in ("PENDING", "RUNNING") and dead["runner_id"] and e["owner"] == dead["runner_id"]:
                    try:
                        fname = app.state_backend.get_invocation(inv_).task.task_id.func_name
                    except Exception:  # noqa: BLE001
                        continue
                    if fname == "recover_pending_invocations":
                        blocked_service["PENDING"] = True  # nobody can rescue PENDING work any more
                    if fname == "recover_running_invocations":
                        blocked_service["RUNNING"] = True
            # sub-invocations: a call made by a task body that got an invocation back is an accepted call too
            parent_of: dict[str, str | None] = {}
            for inv_ in last_by_inv:
                try:
                    pid_ = app.state_backend.get_invocation(inv_).parent_invocation_id
                    parent_of[inv_] = str(pid_) if pid_ else None
                except Exception:  # noqa: BLE001
                    parent_of[inv_] = None

            def root_of(i_: str) -> str | None:
                seen_ = set()
                while i_ is not None and i_ not in seen_:
                    if i_ in accepted_set:
                        return i_
                    seen_.add(i_)
                    i_ = parent_of.get(i_)
                return None

            accepted_set = set(accepted)
            descendants = sorted(i_ for i_ in last_by_inv if i_ not in accepted_set and root_of(i_) is not None)
            nonfinal_desc: dict[str, int] = {}
            for i_ in descendants:
                if last_by_inv[i_]["status"] not in FINALS:
                    r_ = root_of(i_)
                    nonfinal_desc[r_] = nonfinal_desc.get(r_, 0) + 1
            if descendants:
                st["probe.sub_invocations_examined"] = len(descendants)
            for inv in accepted + descendants:
                rec = app.orchestrator.get_invocation_status_record(inv)
                s, o = rec.status.name, rec.runner_id
                evs = sorted((e for e in w.tlog if e["inv"] == inv), key=lambda e: (e["ts"], e["seq"]))
                if crashed and any(e["ts"] > state["crashed_at"] for e in evs):
                    inflight = True
                if s in FINALS:
                    if s in ("SUCCESS", "FAILED") and bodies_done.get(inv, 0) < 1:
                        viol.append({"signature": f"C03/final-without-body/{s}/role={victim}/{kind}", "message": f"{w.alias(inv)} is {s} but its body never completed"})
                    continue
                queued = inv in queue
                site = state["site"]
                last = state["last_effect"]
                dead_owner = bool(dead["runner_id"]) and o == dead["runner_id"]
                if s in AVAILABLE and not queued:
                    cls = "available-not-queued"
                    st["probe.popped_not_claimed_at_crash"] = st.get("probe.popped_not_claimed_at_crash", 0) + 1
                elif s in ("KILLED", "CONCURRENCY_CONTROLLED", "PENDING_RECOVERY", "RUNNING_RECOVERY"):
                    cls = "status-written-not-requeued"
                    if crashed and evs and dead["runner_id"] and evs[-1]["requester"] != dead["runner_id"]:
                        # the status was written by a process that is still alive: not the crash window
                        cls = "status-written-by-live-process-not-requeued"
                    st["probe.status_written_not_requeued_at_crash"] = st.get("probe.status_written_not_requeued_at_crash", 0) + 1
                elif s in ("PENDING", "RUNNING") and dead_owner and blocked_service[s]:
                    cls = "recovery-task-held-by-dead-runner-blocks-recovery"
                elif s in ("PENDING", "RUNNING") and dead_owner:
                    cls = "held-by-dead-runner-not-recovered"
                elif s in AVAILABLE and queued and sum(1 for e in evs if e["status"] == "CONCURRENCY_CONTROLLED") >= 3:
                    # alive and being polled, but concurrency-controlled over and over: it waits behind a
                    # same-key invocation that is itself stranded (reported on its own)
                    blocked_behind.append(inv)
                    continue
                elif s in AVAILABLE and queued:
                    cls = "queued-but-never-run"
                elif s == "RUNNING" and not dead_owner and (nonfinal_desc.get(inv) or nonfinal_desc.get(root_of(inv) or "")) and any(parent_of.get(d_) == inv and last_by_inv[d_]["status"] not in FINALS for d_ in descendants):
                    # held by a live runner and waiting for a sub-invocation that is itself stranded (reported on its own)
                    st["probe.waiting_for_stranded_sub_invocation"] = st.get("probe.waiting_for_stranded_sub_invocation", 0) + 1
                    continue
                else:
                    cls = "other"
                fault_text = f"victim {victim} ({kind}) was killed before its statement #{K} {site} (last completed {last})" if crashed else f"nothing was killed (scenario {kind})"
                viol.append(
                    {
                        "signature": f"C03/stranded/{cls}/status={s}/role={ROLE_NAME.get(victim, victim)}{'-in-' + kind if victim == 'recovery' else ''}",
                        "message": f"{w.alias(inv)} was accepted but is not final {int(BUDGET_S)} virtual seconds after submission / the crash although r2 and the recovery services kept running: status={s}, queued={int(queued)}, owner={'dead runner' if dead_owner else o}; {fault_text}; transitions: {[(e['status'], e['requester'][:8] if e['requester'] else None) for e in evs]}",
                    }
                )
            if blocked_behind:
                st["probe.blocked_behind_stranded_same_key"] = len(blocked_behind)
                if not viol:
                    # nothing else is stranded: then the blocker is not an accepted invocation of this run -> report
                    for inv in blocked_behind:
                        viol.append({"signature": f"C03/stranded/concurrency-controlled-forever/role={victim}", "message": f"{w.alias(inv)} is re-queued by concurrency control over and over and never runs, and no other accepted invocation is stranded"})
            if crashed and any(True for inv in accepted):
                # non-trivial: some accepted work was unfinished at the crash instant
                unfinished = False
                for inv in accepted:
                    evs = [e for e in w.tlog if e["inv"] == inv and e["ts"] <= state["crashed_at"]]
                    if not evs or max(evs, key=lambda e: e["ts"])["status"] not in FINALS:
                        unfinished = True
                if unfinished:
                    st["probe.crash_with_inflight_work"] = 1
            del inflight
        common["sched_hash"] = f"{victim}:{kind}:{state['last_effect']}:{common['sched_hash']}"
        common.update(
            {
                "violations": viol,
                "nontrivial": bool(st.get("probe.crash_with_inflight_work")) or (victim is None and bool(accepted)),
                "sample": {"victim": victim, "kind": kind, "crash_step": K, "crash_site": state["site"], "last_effect": state["last_effect"], "crashed_at": None if not crashed else round(state["crashed_at"] - sim.epoch, 4), "accepted": len(accepted), "policy": [policy, parg], "virtual_seconds": round(sim.now - sim.epoch, 1), "roots": roots[:2]},
            }
        )
        return common
