"""C04 -- recovery re-queues stuck PENDING/RUNNING work and never steals live work.

Strata:
  hist   engine A: histories of heartbeats (own and parent-reported, eligible
         or not), claims, status changes and clock advances -- including
         "exactly the cutoff" +/- 1 microsecond -- over several runners and
         timeout settings on both backends in lock-step with a reference model;
         the two scans and the two recovery task bodies are operations
  race   engine B: the recovery task bodies run concurrently with owners that
         move on (PENDING -> RUNNING, -> REROUTED -> claimed again, RUNNING ->
         SUCCESS) between the scan and the transition, pre-emption at SQL
         statements / source lines

Oracle: scans return exactly {PENDING with age >= limit} and {RUNNING whose
owner has no heartbeat newer than the timeout, incl. owners that never sent
one}; after a recovery run every id it moved to a recovery status is REROUTED
and queued -- also when the run raised; another runner can then complete it;
no record younger than the limit and no RUNNING record under a fresh heartbeat
is ever the predecessor of a recovery record.
"""

from __future__ import annotations

import hashlib
import random
from typing import Any

from simkit.seq import SeqEnv
from simkit.world import World
from workloads import simtasks

PROPERTY = "C04"
LEVEL = "exploration"
ENGINES = ["A", "B"]
TECHNIQUE = "deterministic simulation: virtual-clock histories (boundary instants) against a reference recovery model on both backends; seeded SQL-statement / source-line interleavings of the real recovery task bodies with owners that keep moving"
LEVEL_TEXT = (
    "hist: seeded operation histories on both real orchestrators under the simulated clock, with clock advances placed exactly on, just "
    "before and just after the pending limit and the heartbeat timeout; heartbeats reported by a parent go through the real BaseRunner._report_child_runner_heartbeats of a process-runner object (alive child, sometimes a dead sibling), with the service-check cadence randomised; scans and full status read-outs are compared with a reference model "
    "after every operation. race: the real recover_pending_invocations / recover_running_invocations bodies run in one simulated process while "
    "owner processes keep transitioning the same invocations; the schedule is seeded at SQL-statement (SQLite) or source-line (memory) "
    "granularity; afterwards everything that entered a recovery status must be REROUTED and queued, nothing fresh may have been recovered, "
    "and a healthy runner must be able to complete the recovered work."
)
LEVEL_NOTE = "Trusted: reference model of the two scans (float arithmetic mirrors the documented cutoffs: pending age >= limit, heartbeat strictly older than timeout), simkit clock (each backend sees the same instant for the same operation), transition log, heartbeat log."
MINIMIZE = "schedule"
RULE = (
    "hist: 20-80 operations over 2-4 runners (parents and children), 3-6 invocations, limits from {0.5, 5, 60} s and timeouts from {0.05, 1, 10} min; "
    "non-trivial = both scans were non-empty at least once and at least one boundary instant was visited. race: 2-4 stuck invocations, "
    "1-2 owner actions and 0-6 polls of a healthy third runner during the recovery run; non-trivial = an owner action landed between the scan and the recovery transition of the "
    "same invocation; distinct = hash of op sequence / switch sites."
)
ASSUMPTIONS = [
    "'PENDING for at least the limit' is age >= limit; 'heartbeat older than the timeout' is strictly older (as both backends implement and the config documents)",
    "'can then be completed by another runner' is bounded liveness with one healthy runner polling after the recovery run",
]
REAL = ["core_tasks.recover_pending_invocations / recover_running_invocations", "BaseRunner._report_child_runner_heartbeats / PersistentProcessRunner.get_active_child_runner_ids", "Mem/SQLite recovery scans", "register_runner_heartbeats / active runner queries", "reroute_invocations", "brokers"]
STUBBED = ["clock", "thread scheduling", "uuid4"]
PROBES = ["pending_scan_nonempty", "running_scan_nonempty", "boundary_instant", "never_heartbeated_owner", "parent_reported_heartbeat", "owner_moved_between_scan_and_transition", "recovery_run_raised", "fresh_reclaim_during_recovery", "concurrent_poll_claimed_recovered"]


def plan(tier: str) -> list[dict]:
    q = tier == "quick"
    return [
        {"stratum": "hist", "runs": 128 if q else 6000, "params": {"mode": "hist"}, "chunk": 8 if q else 125},
        {"stratum": "race-sqlite", "runs": 240 if q else 10000, "params": {"mode": "race", "stack": "sqlite"}, "chunk": 15 if q else 250},
        {"stratum": "race-mem", "runs": 240 if q else 10000, "params": {"mode": "race", "stack": "mem"}, "chunk": 15 if q else 250},
    ]


def warmup() -> None:
    run(0, {"mode": "hist"})
    run(0, {"mode": "race", "stack": "sqlite"})
    run(0, {"mode": "race", "stack": "mem"})


def run(seed: int, params: dict, replay: dict | None = None) -> dict:
    if params["mode"] == "hist":
        return _run_hist(seed)
    return _run_race(seed, params["stack"], replay)


def _call_recovery(app: Any, which: str, ctx: Any) -> None:
    """Run a recovery core task body the way a worker thread would."""
    from pynenc import context, core_tasks

    context.set_current_app(app)
    context.set_runner_context(app.app_id, ctx)
    fn = core_tasks.recover_pending_invocations if which == "pending" else core_tasks.recover_running_invocations
    fn.func()


def _queue(app: Any) -> list[str]:
    """Queue content (drain and route back: sequential phases only)."""
    out = []
    while True:
        m = app.broker.retrieve_invocation()
        if m is None or len(out) > 500:
            break
        out.append(str(m))
    for m in out:
        app.broker.route_invocation(m)
    return out


# ----------------------------------------------------------------------------- engine A
def _run_hist(seed: int) -> dict:
    from pynenc.invocation.status import InvocationStatus
    from pynenc.runner.runner_context import RunnerContext
    from simkit import apps as _apps

    viol: list[dict] = []
    stats: dict[str, int] = {}
    trace: list = []
    with SeqEnv(seed) as env:
        sim = env.sim
        rng = sim.rng_work
        limit = rng.choice([0.5, 5.0, 60.0])
        dead_min = rng.choice([0.05, 1.0, 10.0])
        timeout = dead_min * 60
        check_min = rng.choice([0.01, 0.5, 5.0])  # the parent's reporting must not depend on the service-check cadence
        for app in env.apps.values():
            app.conf.max_pending_seconds = limit
            app.conf.runner_considered_dead_after_minutes = dead_min
            app.conf.atomic_service_check_interval_minutes = check_min
        tasks = {st: _apps.register(app, simtasks.add) for st, app in env.apps.items()}
        runners = [f"run{i}" for i in range(rng.randint(2, 4))]
        ctxs = {r: RunnerContext(runner_cls="SimRunner", runner_id=r) for r in runners}
        rec_ctx = RunnerContext(runner_cls="SimRunner", runner_id="recovery")
        n = rng.randint(3, 6)
        ids = [{st: str(t(i, 0).invocation_id) for st, t in tasks.items()} for i in range(n)]
        # model
        status: list[tuple[str, str | None, float]] = []  # (status, owner, ts) per invocation
        for i in range(n):
            r = env.apps["mem"].orchestrator.get_invocation_status_record(ids[i]["mem"])
            status.append((r.status.name, r.runner_id, r.timestamp.timestamp()))
        hb: dict[str, float] = {}
        queued: list[int] = list(range(n))
        had_p = had_r = boundary = False

        def each(fn: Any) -> dict[str, Any]:
            """Same instant for both backends."""
            t0 = sim.now
            out = {}
            t_end = t0
            for st, app in env.apps.items():
                sim.now = t0
                out[st] = fn(st, app)
                t_end = max(t_end, sim.now)
            sim.now = t_end
            return out

        def read_all(tag: str) -> None:
            for st, app in env.apps.items():
                for i in range(n):
                    r = app.orchestrator.get_invocation_status_record(ids[i][st])
                    got = (r.status.name, r.runner_id)
                    if got != status[i][:2]:
                        viol.append({"signature": f"C04/hist/{st}/status-after-{tag}", "message": f"after {tag}: i{i} is {got}, model {status[i][:2]}; trace tail {trace[-5:]}"})

        def set_status(i: int, s: str, who: str) -> bool:
            def one(st: str, app: Any) -> bool:
                try:
                    app.orchestrator.set_invocation_status(ids[i][st], InvocationStatus[s], ctxs[who])
                    return True
                except Exception:  # noqa: BLE001
                    return False

            ok = each(one)  # the same instant on both backends
            if all(ok.values()):
                r = env.apps["mem"].orchestrator.get_invocation_status_record(ids[i]["mem"])
                r2 = env.apps["sqlite"].orchestrator.get_invocation_status_record(ids[i]["sqlite"])
                # both backends were driven at (almost) the same instant; the model keeps each one's own stamp
                status[i] = (r.status.name, r.runner_id, r.timestamp.timestamp())
                stamp[i] = {"mem": r.timestamp.timestamp(), "sqlite": r2.timestamp.timestamp()}
            return all(ok.values())

        stamp: dict[int, dict[str, float]] = {i: {"mem": status[i][2], "sqlite": env.apps["sqlite"].orchestrator.get_invocation_status_record(ids[i]["sqlite"]).timestamp.timestamp()} for i in range(n)}
        hbs: dict[str, dict[str, float]] = {}  # runner -> backend -> last heartbeat
        parents: dict[str, Any] = {}

        class _Proc:
            def __init__(self, alive: bool) -> None:
                self._alive = alive

            def is_alive(self) -> bool:
                return self._alive

        def _parent_runner(st: str, app: Any) -> Any:
            """A real PersistentProcessRunner object per app (never started): only its parent-side reporting code is used."""
            if st not in parents:
                from pynenc.runner.persistent_process_runner import PersistentProcessRunner

                prev = app.runner
                parents[st] = PersistentProcessRunner(app)
                app.runner = prev
            return parents[st]

        n_ops = rng.randint(20, 80)
        for step in range(n_ops):
            r = rng.random()
            if r < 0.2:
                who = rng.choice(runners)
                elig = rng.random() < 0.5
                parent = rng.random() < 0.4
                if parent:
                    stats["probe.parent_reported_heartbeat"] = stats.get("probe.parent_reported_heartbeat", 0) + 1

                dead_sibling = rng.choice([x for x in runners if x != who]) if parent and rng.random() < 0.5 else None

                def do_hb(st: str, app: Any, who: str = who, elig: bool = elig, parent: bool = parent, dead_sibling: Any = dead_sibling) -> None:
                    t = sim.now
                    t += 1e-6
                    if parent:
                        # through the real parent code: BaseRunner._report_child_runner_heartbeats of a process runner whose
                        # child table holds `who` (alive) and possibly a dead sibling (which must not be reported)
                        pr = _parent_runner(st, app)
                        pr.child_runner_ids = {who: _Proc(True)}
                        if dead_sibling is not None:
                            pr.child_runner_ids[dead_sibling] = _Proc(False)
                        pr._report_child_runner_heartbeats()
                    else:
                        app.orchestrator.register_runner_heartbeats([who], can_run_atomic_service=elig)
                    hbs.setdefault(who, {})[st] = t

                each(do_hb)
                trace.append(("hb", who, elig, parent))
            elif r < 0.4:
                i = rng.randrange(n)
                who = rng.choice(runners)
                if status[i][0] in ("REGISTERED", "REROUTED", "RETRY"):
                    sim.advance(0.001)
                    if set_status(i, "PENDING", who) and i in queued:
                        pass
                    trace.append(("claim", i, who))
            elif r < 0.5:
                cand = [i for i in range(n) if status[i][0] == "PENDING"]
                if cand:
                    i = rng.choice(cand)
                    sim.advance(0.001)
                    set_status(i, "RUNNING", status[i][1])  # type: ignore[arg-type]
                    trace.append(("start", i))
            elif r < 0.55:
                cand = [i for i in range(n) if status[i][0] == "RUNNING"]
                if cand:
                    i = rng.choice(cand)
                    sim.advance(0.001)
                    set_status(i, "SUCCESS", status[i][1])  # type: ignore[arg-type]
                    trace.append(("finish", i))
            elif r < 0.75:
                # clock: plain advance, or exactly onto a boundary (+/- 1 microsecond)
                mode = rng.choice(["plain", "pending-edge", "hb-edge"])
                if mode == "pending-edge":
                    cand = [i for i in range(n) if status[i][0] == "PENDING"]
                    if cand:
                        i = rng.choice(cand)
                        target = stamp[i]["mem"] + limit + rng.choice([-2e-6, -1e-6, 0.0, 1e-6, 2e-6]) - 1e-6
                        if target > sim.now:
                            sim.now = target
                            boundary = True
                            stats["probe.boundary_instant"] = stats.get("probe.boundary_instant", 0) + 1
                elif mode == "hb-edge" and hbs:
                    who = rng.choice(sorted(hbs))
                    target = hbs[who]["mem"] + timeout + rng.choice([-2e-6, -1e-6, 0.0, 1e-6, 2e-6]) - 1e-6
                    if target > sim.now:
                        sim.now = target
                        boundary = True
                        stats["probe.boundary_instant"] = stats.get("probe.boundary_instant", 0) + 1
                else:
                    sim.advance(rng.choice([0.01, limit / 3, limit, timeout / 2, timeout * 1.1]))
                trace.append(("clock", mode, round(sim.now - sim.epoch, 6)))
            elif r < 0.9:
                # the two scans
                def scans(st: str, app: Any) -> tuple[set, set, float]:
                    t = sim.now
                    t += 1e-6
                    p = {str(x) for x in app.orchestrator.get_pending_invocations_for_recovery()}
                    return p, t

                def scans_r(st: str, app: Any) -> tuple[set, float]:
                    t = sim.now
                    t += 1e-6
                    p = {str(x) for x in app.orchestrator.get_running_invocations_for_recovery()}
                    return p, t

                got_p = each(scans)
                got_r = each(scans_r)
                for st in env.apps:
                    p, t = got_p[st]
                    want = {ids[i][st] for i in range(n) if status[i][0] == "PENDING" and stamp[i][st] <= t - limit}
                    if want:
                        had_p = True
                        stats["probe.pending_scan_nonempty"] = stats.get("probe.pending_scan_nonempty", 0) + 1
                    if p != want:
                        rev = {ids[i][st]: i for i in range(n)}
                        detail = {f"i{rev[x]}": round(t - stamp[rev[x]][st] - limit, 7) for x in (p ^ want)}
                        viol.append({"signature": f"C04/hist/{st}/pending-scan/{'misses' if want - p else 'extra'}", "message": f"pending scan at t: got {sorted(rev[x] for x in p)}, model {sorted(rev[x] for x in want)}; (age - limit) of the differing ones: {detail}; limit={limit}"})
                    p, t = got_r[st]
                    want = set()
                    for i in range(n):
                        if status[i][0] == "RUNNING" and status[i][1]:
                            last = hbs.get(status[i][1], {}).get(st)
                            if last is None:
                                stats["probe.never_heartbeated_owner"] = stats.get("probe.never_heartbeated_owner", 0) + 1
                            if last is None or last < t - timeout:
                                want.add(ids[i][st])
                    if want:
                        had_r = True
                        stats["probe.running_scan_nonempty"] = stats.get("probe.running_scan_nonempty", 0) + 1
                    if p != want:
                        rev = {ids[i][st]: i for i in range(n)}
                        viol.append({"signature": f"C04/hist/{st}/running-scan/{'misses' if want - p else 'extra'}", "message": f"running scan: got {sorted(rev[x] for x in p)}, model {sorted(rev[x] for x in want)}; owners {[(i, status[i][1], hbs.get(status[i][1] or '', {}).get(st)) for i in range(n) if status[i][0] == 'RUNNING']}; timeout={timeout}s t={t}"})
                trace.append(("scan",))
            else:
                which = rng.choice(["pending", "running"])

                def rec(st: str, app: Any, which: str = which) -> Any:
                    t = sim.now
                    t += 1e-6
                    try:
                        _call_recovery(app, which, rec_ctx)
                        return ("ok", t)
                    except Exception as e:  # noqa: BLE001
                        return (f"raised:{type(e).__name__}:{e}", t)

                out = each(rec)
                # model: what the scan selects at that instant is REROUTED + queued afterwards
                sel: set[int] = set()
                for st in env.apps:
                    o, t = out[st]
                    if o != "ok":
                        viol.append({"signature": f"C04/hist/{st}/recovery-raised", "message": f"recover_{which}_invocations raised without any concurrent owner: {o}"})
                    mine = set()
                    for i in range(n):
                        if which == "pending" and status[i][0] == "PENDING" and stamp[i][st] <= t - limit:
                            mine.add(i)
                        if which == "running" and status[i][0] == "RUNNING" and status[i][1]:
                            last = hbs.get(status[i][1], {}).get(st)
                            if last is None or last < t - timeout:
                                mine.add(i)
                    if st == "mem":
                        sel = mine
                    elif mine != sel:
                        viol.append({"signature": f"C04/hist/model-stamps-differ/{which}", "message": f"harness: the two backends carry different stamps for the same operation ({sorted(sel)} vs {sorted(mine)})"})
                        out["skip"] = True
                if not out.get("skip"):
                    for i in sel:
                        status[i] = ("REROUTED", None, 0.0)
                        for st, app in env.apps.items():
                            stamp[i][st] = app.orchestrator.get_invocation_status_record(ids[i][st]).timestamp.timestamp()
                    read_all(f"recover-{which}")
                    for st, app in env.apps.items():
                        q = _queue(app)
                        for i in sel:
                            if ids[i][st] not in q:
                                viol.append({"signature": f"C04/hist/{st}/recovered-not-queued/{which}", "message": f"i{i} was selected by the {which} recovery run but is not in the queue afterwards"})
                else:
                    # resynchronise the model from the mem backend
                    for i in range(n):
                        r_ = env.apps["mem"].orchestrator.get_invocation_status_record(ids[i]["mem"])
                        status[i] = (r_.status.name, r_.runner_id, r_.timestamp.timestamp())
                trace.append(("recover", which, sorted(sel)))
            if step % 7 == 0:
                read_all("op")
        tr = repr(trace).encode()
        return {
            "violations": viol,
            "stats": stats,
            "steps": len(trace),
            "sim_time": round(sim.now - sim.epoch, 4),
            "sched_hash": hashlib.sha256(tr).hexdigest()[:16],
            "nontrivial": had_p and had_r and boundary,
            "sample": {"limit_s": limit, "timeout_s": timeout, "runners": runners, "invocations": n, "ops": [list(map(str, t)) for t in trace[:14]], "len": len(trace)},
            "digest": hashlib.sha256(tr + repr(sorted(v["signature"] for v in viol)).encode()).hexdigest(),
        }


# ----------------------------------------------------------------------------- engine B
MEM_TRACE = ["orchestrator/base_orchestrator.py", "orchestrator/mem_orchestrator.py", "core_tasks.py", "broker/mem_broker.py"]


def _run_race(seed: int, stack: str, replay: dict | None) -> dict:
    from pynenc.invocation.status import InvocationStatus as S
    from pynenc.runner.runner_context import RunnerContext

    rng = random.Random(f"{seed}:c04")
    which = rng.choice(["pending", "running"])
    policy = rng.choice(["rand", "rand", "pct", "rr"])
    parg = {"rand": rng.choice([0.2, 0.4]), "pct": rng.choice([1, 2, 3]), "rr": rng.choice([1, 2, 3])}[policy]
    n = rng.randint(2, 4)
    limit = 5.0
    dead_min = 0.5
    schedule = replay.get("schedule") if replay else None
    viol: list[dict] = []
    with World(seed, stack, ["v", "o", "x", "p"], policy=policy, policy_arg=parg, schedule=schedule, trace_files=MEM_TRACE if stack == "mem" else None, max_steps=40000, conf={"max_pending_seconds": limit, "runner_considered_dead_after_minutes": dead_min, "cached_status_time": 0.0}) as w:
        sim = w.sim
        tasks = w.register(simtasks.add)
        octx = RunnerContext(runner_cls="SimRunner", runner_id="owner")
        xctx = RunnerContext(runner_cls="SimRunner", runner_id="other")
        vctx = RunnerContext(runner_cls="SimRunner", runner_id="recovery")
        app_o, app_v, app_x, app_p = w.apps["o"], w.apps["v"], w.apps["x"], w.apps["p"]
        pctx = RunnerContext(runner_cls="SimRunner", runner_id="poller")
        ids = [str(tasks["o"](i, 0).invocation_id) for i in range(n)]
        # the owner claims everything (and starts it, for the running variant), then goes silent
        while app_o.broker.retrieve_invocation() is not None:
            pass
        if which == "running":
            app_o.orchestrator.register_runner_heartbeats(["owner"])
        for i in ids:
            app_o.orchestrator.set_invocation_status(i, S.PENDING, octx)
            if which == "running":
                app_o.orchestrator.set_invocation_status(i, S.RUNNING, octx)
        sim.advance(limit + 1.0 if which == "pending" else dead_min * 60 + 5.0)
        t_stuck = sim.now
        actions = []
        for _ in range(rng.randint(1, 2)):
            tgt = rng.randrange(n)
            if which == "pending":
                actions.append((tgt, rng.choice(["start", "reroute-reclaim", "reroute"])))
            else:
                actions.append((tgt, rng.choice(["finish", "fail-retry"])))
        rec: dict[str, Any] = {"raised": None}
        # a healthy runner keeps polling the queue while the recovery run is under way (it keeps what it claims)
        n_polls = rng.choice([0, 2, 4, 6])
        poll_gaps = [rng.uniform(0.0, 0.01 if stack == "mem" else 0.004) for _ in range(n_polls)]

        def poller_main() -> None:
            for gap in poll_gaps:
                sim.sleep(gap)
                try:
                    got = list(app_p.orchestrator.get_invocations_to_run(1, pctx))
                except Exception as e:  # noqa: BLE001
                    rec["poll_raised"] = f"{type(e).__name__}: {e}"
                    return
                if got:
                    sim.bump("probe.concurrent_poll_claimed_recovered")

        def recovery_main() -> None:
            try:
                _call_recovery(app_v, which, vctx)
            except Exception as e:  # noqa: BLE001
                rec["raised"] = f"{type(e).__name__}: {e}"
                sim.bump("probe.recovery_run_raised")

        def owner_main() -> None:
            for tgt, act in actions:
                # land somewhere inside the recovery run (its length in virtual time depends on the
                # number of yield points: source lines in memory, SQL statements on SQLite)
                sim.sleep(rng.uniform(0.0, 0.02 if stack == "mem" else 0.006))
                i = ids[tgt]
                try:
                    if act == "start":
                        app_o.orchestrator.set_invocation_status(i, S.RUNNING, octx)
                    elif act == "finish":
                        app_o.orchestrator.set_invocation_status(i, S.SUCCESS, octx)
                    elif act == "fail-retry":
                        app_o.orchestrator.set_invocation_retry(i, RuntimeError("x"), octx)
                    else:
                        app_o.orchestrator.reroute_invocations({i}, octx)
                        if act == "reroute-reclaim":
                            # a third runner picks the re-queued invocation up: a fresh PENDING
                            got = list(app_x.orchestrator.get_invocations_to_run(1, xctx))
                            if got:
                                sim.bump("probe.fresh_reclaim_during_recovery")
                except Exception:  # noqa: BLE001  losing against the recovery run is fine
                    pass

        w.run([("v", "main", recovery_main), ("o", "main", owner_main)] + ([("p", "main", poller_main)] if n_polls else []))
        common = w.result_common()
        st = common["stats"]
        if sim.abort_reason:
            common["inconclusive"] = True
        else:
            by_inv: dict[str, list[dict]] = {}
            for e in sorted(w.tlog, key=lambda e: (e["ts"], e["seq"])):
                by_inv.setdefault(e["inv"], []).append(e)
            q = _queue(app_v)
            recovered = []
            lost = [r for r in w.refused if r["requester"] == "recovery"]
            if lost:
                # the recovery run lost a race: the owner moved between its scan and its transition
                st["probe.owner_moved_between_scan_and_transition"] = st.get("probe.owner_moved_between_scan_and_transition", 0) + len(lost)
            for inv in ids:
                evs = by_inv.get(inv, [])
                for k, e in enumerate(evs):
                    if not e["status"].endswith("_RECOVERY"):
                        continue
                    recovered.append(inv)
                    pred = evs[k - 1]
                    # owner moved between scan and transition?
                    if any(x["requester"] in ("owner", "other", "poller") and x["ts"] > t_stuck for x in evs[:k]):
                        sim.bump("probe.owner_moved_between_scan_and_transition")
                        st["probe.owner_moved_between_scan_and_transition"] = st.get("probe.owner_moved_between_scan_and_transition", 0) + 1
                    if e["status"] == "PENDING_RECOVERY" and e["ts"] - pred["ts"] < limit:
                        viol.append({"signature": f"C04/race/{stack}/fresh-pending-recovered", "message": f"{w.alias(inv)}: PENDING since {e['ts'] - pred['ts']:.4f}s (< limit {limit}s, owner {pred['owner']}) was moved to PENDING_RECOVERY; transitions: {[(x['status'], x['requester']) for x in evs]}"})
                cur = evs[-1] if evs else None
                if inv in recovered and cur is not None:
                    if cur["status"] in ("PENDING_RECOVERY", "RUNNING_RECOVERY"):
                        viol.append({"signature": f"C04/race/{stack}/stuck-in-{cur['status']}/raised={bool(rec['raised'])}", "message": f"{w.alias(inv)} was taken by the {which} recovery run but is left in {cur['status']} and not re-queued (recovery run {'raised ' + rec['raised'] if rec['raised'] else 'returned normally'}); transitions: {[(x['status'], x['requester']) for x in evs]}"})
                    elif cur["status"] == "REROUTED" and inv not in q:
                        viol.append({"signature": f"C04/race/{stack}/rerouted-not-queued", "message": f"{w.alias(inv)} is REROUTED after recovery but not in the queue"})
            # a healthy runner can now complete what was recovered (sequential post-phase)
            hctx = RunnerContext(runner_cls="SimRunner", runner_id="healthy")
            if not viol:
                for _ in range(3):
                    for inv_obj in list(app_x.orchestrator.get_invocations_to_run(10, hctx)):
                        inv_obj.run(hctx)
                for inv in set(recovered):
                    s_ = app_x.orchestrator.get_invocation_status(inv).name
                    evs = by_inv.get(inv, [])
                    if s_ != "SUCCESS" and not any(x["status"] in ("SUCCESS",) for x in evs):
                        # it may legitimately be held by the third runner (fresh claim)
                        rec_ = app_x.orchestrator.get_invocation_status_record(inv)
                        if rec_.runner_id not in ("other", "poller"):
                            viol.append({"signature": f"C04/race/{stack}/recovered-not-completable/{s_}", "message": f"{w.alias(inv)} was recovered but a healthy runner polling afterwards could not complete it: status {s_}, owner {rec_.runner_id}"})
        common.update(
            {
                "violations": viol,
                "nontrivial": st.get("probe.owner_moved_between_scan_and_transition", 0) > 0 or bool(rec["raised"]),
                "sample": {"stack": stack, "which": which, "invocations": n, "owner_actions": [[t, a] for t, a in actions], "policy": [policy, parg], "recovery_raised": rec["raised"], "transitions": [[w.alias(e["inv"]), e["status"], e["requester"]] for e in sorted(w.tlog, key=lambda e: e["ts"]) if e["ts"] > t_stuck][:20]},
            }
        )
        return common
