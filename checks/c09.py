"""C09 -- waiting on sub-tasks is tracked exactly and can never deadlock a runner.

Strata:
  graph   engine A: sequences of wait declarations, completions and status
          changes over <= 6 invocations on both backends in lock-step with a
          reference wait graph; after every operation get_blocking_invocations(n)
          must return min(n, |B|) distinct members of
          B = {declared-awaited, not final, not itself waiting, available}
  trees   engine B: generated call trees (depth <= 3, fan-out <= 3, single
          results, groups, mixed) executed by the real ThreadRunner with 1 or 2
          slots in virtual time under fair seeded schedules; the root must
          complete with the value the tree denotes (bounded liveness)
"""

from __future__ import annotations

import hashlib
import random
from typing import Any

from models.lifecycle import ALL, AVAILABLE, FINALS, Lifecycle
from simkit.seq import SeqEnv
from workloads import gen, simtasks
from workloads.deploy import Deployment

PROPERTY = "C09"
LEVEL = "exploration"
ENGINES = ["A", "B"]
TECHNIQUE = "deterministic simulation: lock-step reference wait-graph for operation sequences; real ThreadRunner with 1-2 slots in virtual time for call trees, bounded-liveness oracle (root completes with the denoted value)"
LEVEL_TEXT = (
    "graph stratum: seeded sequences of waiting_for_results / status changes on both real orchestrators, compared after every operation "
    "with a reference wait graph for n in {1, 2, 10}. trees stratum: the real ThreadRunner loop (1 or 2 execution slots) runs generated "
    "call trees in virtual time under fair seeded schedules; a run whose root is not final within the virtual budget while the abstract "
    "state no longer changes is a deadlock (violation), a run still moving at the budget is inconclusive. Sequences, trees and schedules are sampled."
)
LEVEL_NOTE = "Trusted: reference wait graph (declarations stay on record when the waiter finishes; edges into a finished invocation are dropped), lifecycle model, simkit scheduler; fairness = rand policy with p > 0 or round-robin. Liveness is bounded (120 virtual seconds)."
MINIMIZE = None
RULE = (
    "graph: 15-60 operations over 3-6 invocations (declare wait, legal status move, illegal status move); non-trivial = B was non-empty "
    "at least once and shrank at least once. trees: depth <= 3, fan-out <= 3, groups and singles, 1-2 slots, policies rand / rr; "
    "non-trivial = the tree has >= 2 levels so that a waiting task occupied the only slot; distinct = hash of the op sequence / switch sites."
)
ASSUMPTIONS = [
    "a wait declaration is only issued for a target that is not final at that moment (as DistributedInvocation.result does)",
    "order of ids returned by get_blocking_invocations is not compared (set semantics), only membership and count",
]
REAL = ["Mem/SQLite blocking control", "BaseOrchestrator.get_invocations_to_run (blocking-first)", "ThreadRunner slots / waiting set", "DistributedInvocation.result / group results"]
STUBBED = ["clock", "thread scheduling", "uuid4"]
PROBES = ["nonempty_blocking_set", "release_on_final", "waiter_became_ready", "slot_exhausted_by_waiter", "group_wait"]

_LC: Lifecycle | None = None


def lc() -> Lifecycle:
    global _LC
    if _LC is None:
        _LC = Lifecycle()
    return _LC


def plan(tier: str) -> list[dict]:
    q = tier == "quick"
    return [
        {"stratum": "graph", "runs": 128 if q else 6000, "params": {"mode": "graph"}, "chunk": 8 if q else 125},
        {"stratum": "trees-mem", "runs": 160 if q else 8000, "params": {"mode": "trees", "stack": "mem"}, "chunk": 10 if q else 200},
        {"stratum": "trees-sqlite", "runs": 64 if q else 3000, "params": {"mode": "trees", "stack": "sqlite"}, "chunk": 4 if q else 100},
    ]


def warmup() -> None:
    run(0, {"mode": "graph"})
    run(0, {"mode": "trees", "stack": "mem"})


def run(seed: int, params: dict, replay: dict | None = None) -> dict:
    if params["mode"] == "graph":
        return _run_graph(seed)
    return _run_trees(seed, params["stack"], replay)


# ----------------------------------------------------------------------------- engine A
def _run_graph(seed: int) -> dict:
    from pynenc.invocation.status import InvocationStatus
    from pynenc.runner.runner_context import RunnerContext
    from simkit import apps as _apps

    viol: list[dict] = []
    stats: dict[str, int] = {}
    trace: list = []
    with SeqEnv(seed) as env:
        rng = env.sim.rng_work
        tasks = {st: _apps.register(app, simtasks.add) for st, app in env.apps.items()}
        ctx = RunnerContext(runner_cls="SimRunner", runner_id="r1")
        n = rng.randint(3, 6)
        ids = []
        for i in range(n):
            per = {st: str(t(i, 0).invocation_id) for st, t in tasks.items()}
            ids.append(per)
        registrar = env.apps["mem"].orchestrator.get_invocation_status_record(ids[0]["mem"]).runner_id
        state: list[Any] = [("REGISTERED", registrar) for _ in range(n)]
        edges: set[tuple[int, int]] = set()
        had_nonempty = shrank = False
        prev_size = 0
        n_ops = rng.randint(15, 60)
        for step in range(n_ops):
            r = rng.random()
            env.sim.advance(0.001)
            if r < 0.4:
                a = rng.randrange(n)
                targets = [b for b in range(n) if b != a and state[b][0] not in FINALS]
                if not targets:
                    continue
                bs = rng.sample(targets, rng.randint(1, min(2, len(targets))))
                for st, app in env.apps.items():
                    app.orchestrator.waiting_for_results(ids[a][st], [ids[b][st] for b in bs])
                for b in bs:
                    edges.add((a, b))
                trace.append(("wait", a, tuple(bs)))
            else:
                x = rng.randrange(n)
                if rng.random() < 0.8:
                    legal = [s for s in ALL if lc().step(state[x], s, "r1")[0] == "ok"]
                    if not legal:
                        continue
                    req = rng.choice(legal)
                else:
                    req = rng.choice(ALL)
                exp, nxt = lc().step(state[x], req, "r1")
                for st, app in env.apps.items():
                    try:
                        app.orchestrator.set_invocation_status(ids[x][st], InvocationStatus[req], ctx)
                        out = "ok"
                    except Exception as e:  # noqa: BLE001
                        out = type(e).__name__
                    if (out == "ok") != (exp == "ok"):
                        viol.append({"signature": f"C09/graph/{st}/status-outcome", "message": f"step {step}: {req} on i{x} from {state[x]}: backend {out}, model {exp}"})
                if exp == "ok":
                    state[x] = nxt
                    if req in FINALS:
                        before = len(edges)
                        edges = {(a, b) for (a, b) in edges if b != x}
                        if len(edges) < before:
                            stats["probe.release_on_final"] = stats.get("probe.release_on_final", 0) + 1
                trace.append(("status", x, req, exp))
            waiting = {a for (a, _) in edges}
            B = {b for (_, b) in edges if state[b][0] not in FINALS and b not in waiting and state[b][0] in AVAILABLE}
            if B:
                had_nonempty = True
                stats["probe.nonempty_blocking_set"] = stats.get("probe.nonempty_blocking_set", 0) + 1
            if len(B) < prev_size:
                shrank = True
            prev_size = len(B)
            for st, app in env.apps.items():
                rev = {ids[i][st]: i for i in range(n)}
                for k in (0, 1, 2, 10):
                    try:
                        got = [rev.get(str(g), str(g)) for g in app.orchestrator.get_blocking_invocations(k)]
                    except Exception as e:  # noqa: BLE001
                        viol.append({"signature": f"C09/graph/{st}/raised/{type(e).__name__}", "message": f"step {step}: get_blocking_invocations({k}) raised {type(e).__name__}: {e}"})
                        continue
                    want_n = min(k, len(B))
                    if len(got) != len(set(got)):
                        viol.append({"signature": f"C09/graph/{st}/duplicates", "message": f"step {step}: get_blocking_invocations({k}) -> {got} has duplicates"})
                    extra = [g for g in got if g not in B]
                    if extra:
                        why = []
                        for g in extra:
                            if not isinstance(g, int):
                                why.append("unknown id")
                            elif state[g][0] in FINALS:
                                why.append("finished")
                            elif g in waiting:
                                why.append("itself-waiting")
                            elif state[g][0] not in AVAILABLE:
                                why.append("not-runnable")
                            else:
                                why.append("not-awaited")
                        viol.append({"signature": f"C09/graph/{st}/reports-non-blocking/{why[0]}", "message": f"step {step}: get_blocking_invocations({k}) -> {got}; {extra} are not blocking ({why}); model B={sorted(B)}, edges={sorted(edges)}, statuses={[s[0] for s in state]}; trace tail {trace[-6:]}"})
                    elif len(got) > k:
                        viol.append({"signature": f"C09/graph/{st}/exceeds-limit/k={k}", "message": f"step {step}: get_blocking_invocations({k}) -> {got}: more than the requested limit; B={sorted(B)}"})
                    elif len(got) != want_n:
                        viol.append({"signature": f"C09/graph/{st}/misses-blocking", "message": f"step {step}: get_blocking_invocations({k}) -> {got}, expected {want_n} of B={sorted(B)}; edges={sorted(edges)}, statuses={[s[0] for s in state]}; trace tail {trace[-6:]}"})
        tr = repr(trace).encode()
        return {
            "violations": viol,
            "stats": stats,
            "steps": len(trace),
            "sim_time": round(env.sim.now - env.sim.epoch, 4),
            "sched_hash": hashlib.sha256(tr).hexdigest()[:16],
            "nontrivial": had_nonempty and shrank,
            "sample": {"invocations": n, "ops": [list(map(str, t)) for t in trace[:12]], "len": len(trace)},
            "digest": hashlib.sha256(tr + repr(sorted(v["signature"] for v in viol)).encode()).hexdigest(),
        }


# ----------------------------------------------------------------------------- engine B
def tree_value(spec: dict) -> int:
    return int(spec.get("v", 0)) + sum(tree_value(k) for k in spec.get("kids") or [])


def gen_tree(rng: random.Random, depth: int, fanout: int) -> dict:
    node: dict[str, Any] = {"v": rng.randint(0, 9)}
    if depth > 0 and rng.random() < 0.8:
        node["kids"] = [gen_tree(rng, depth - 1, fanout) for _ in range(rng.randint(1, fanout))]
        if len(node["kids"]) > 1 and rng.random() < 0.4:
            node["group"] = True
    return node


def _depth(spec: dict) -> int:
    return 1 + max((_depth(k) for k in spec.get("kids") or []), default=0)


def _run_trees(seed: int, stack: str, replay: dict | None) -> dict:
    rng = random.Random(f"{seed}:c09")
    slots = rng.choice([1, 1, 2])
    policy = rng.choice(["rand", "rand", "rr"])
    parg = {"rand": rng.choice([0.1, 0.3]), "rr": rng.choice([1, 3, 7])}[policy]
    spec = gen_tree(rng, rng.randint(1, 3), rng.randint(1, 3))
    cached = rng.choice([0.0, 0.1])
    want = tree_value(spec)
    schedule = replay.get("schedule") if replay else None
    viol: list[dict] = []
    with Deployment(seed, stack, 1, policy=policy, policy_arg=parg, schedule=schedule, max_steps=400_000, max_time=120.0, conf={"max_threads": slots, "cached_status_time": cached}) as d:
        sim = d.sim
        d.register(simtasks.tree)
        out: dict[str, Any] = {}

        def client() -> None:
            inv = d.task("c", "tree")(spec)
            out["id"] = str(inv.invocation_id)
            ok = d.wait_final("c", [out["id"]], timeout=100.0, poll=0.05)
            out["final"] = ok
            if ok:
                try:
                    out["value"] = d.app("c").state_backend.get_result(out["id"])
                except Exception as e:  # noqa: BLE001
                    out["error"] = f"{type(e).__name__}: {e}"
            out["status"] = d.status("c", out["id"])
            # abstract state at the end, for the stuck / still-moving verdict
            out["queue"] = d.app("c").broker.count_invocations()
            d.stop_runners()

        d.run({"c": client})
        w = d.w
        common = w.result_common()
        st = common["stats"]
        r = d.runners["r1"]
        if any(g.get("group") for g in _all_nodes(spec)):
            st["probe.group_wait"] = 1
        if _depth(spec) >= 2 and slots == 1:
            st["probe.slot_exhausted_by_waiter"] = 1
        if "final" not in out:
            # the client never reached its own verdict (its budget is 100 virtual s, max_time is larger): harness budget
            common["inconclusive"] = True
        elif not out.get("final"):
            last_change = max((e["ts"] for e in w.tlog), default=sim.epoch) - sim.epoch
            viol.append(
                {
                    "signature": f"C09/trees/{stack}/root-not-final/slots={slots}",
                    "message": f"tree {spec} on a runner with {slots} slot(s): root is {out.get('status')} after 100 virtual seconds; last status change at t={last_change:.2f}s, queue={out.get('queue')}, waiting={len(r.waiting_invocation_ids)}",
                }
            )
        elif "error" in out:
            viol.append({"signature": f"C09/trees/{stack}/root-result-unreadable", "message": f"root final ({out['status']}) but reading the result failed: {out['error']}"})
        elif out.get("value") != want:
            viol.append({"signature": f"C09/trees/{stack}/wrong-value", "message": f"tree {spec} denotes {want}, root returned {out.get('value')!r} (status {out['status']})"})
        common.update(
            {
                "violations": viol,
                "nontrivial": _depth(spec) >= 2,
                "sample": {"stack": stack, "slots": slots, "policy": [policy, parg], "cached_status_time": cached, "tree": spec, "value": want, "virtual_seconds": round(sim.now - sim.epoch, 2)},
            }
        )
        return common


def _all_nodes(spec: dict) -> list[dict]:
    out = [spec]
    for k in spec.get("kids") or []:
        out.extend(_all_nodes(k))
    return out


_ = gen  # (generator module kept importable for replay of older records)
