"""C16 -- in-memory and SQLite backends are observationally equivalent.

Engine A, the widest alphabet: the same seeded operation sequence (up to a few
hundred operations, small id / task / argument / runner universes, controlled
clock) is applied to the in-memory and to the SQLite implementation of
orchestrator, broker, state backend, trigger store and client data store at the
*same simulated instants*; after every operation the return value (sets where
the order is unspecified), the error class and -- every few operations -- a
full read-out are compared.  Both are also compared with small reference
models where one exists (lifecycle + ownership, FIFO queue, wait graph,
retry counter, recovery scans, heartbeats / active runners, content store).
"""

from __future__ import annotations

import hashlib
from typing import Any

from models.lifecycle import ALL, AVAILABLE, FINALS, Lifecycle
from simkit import readout
from simkit.seq import SeqEnv
from workloads import simtasks

PROPERTY = "C16"
LEVEL = "exploration"
ENGINES = ["A"]
TECHNIQUE = "deterministic simulation (sequential engine): differential lock-step execution of seeded operation sequences on both backend families at identical simulated instants, plus reference models for lifecycle, queue, wait graph, retries, scans and heartbeats"
LEVEL_TEXT = (
    "Each run applies 60-300 seeded operations from the public alphabet (register, status change, queries by task / arguments / status, "
    "pagination, counts, filter-by-status, retries, heartbeats and active-runner queries, recovery scans, auto-purge with the clock, "
    "wait-graph operations, queue operations, result / exception / history / workflow-data / runner-context storage, trigger registration, "
    "events, claims and cron bookkeeping, external data, purge of each component) to both families; results are normalised (ids -> indices, "
    "sets where unordered) and compared operation by operation, a full read-out every few operations. Sequences are sampled."
)
LEVEL_NOTE = "Trusted: normalisation of return values (ids mapped to creation indices; unordered collections compared as sets; pagination compared as lists), the reference models, simkit clock (both backends see the same instant for the same operation)."
MINIMIZE = None
RULE = (
    "one run = 60-300 operations over <= 8 invocations of 2 tasks, 3 runners, argument values from a 2x2 domain (task 0 declares both as key arguments, so they are indexed); non-trivial = the run "
    "contained operations of at least 4 of the 5 components and at least one purge or auto-purge; distinct = hash of the op sequence."
)
ASSUMPTIONS = [
    "order of ids returned by queries is compared as a set unless the base class documents an order (pagination: newest first; active runners: creation order)",
    "error classes are compared by class name; messages are not",
]
REAL = ["all Mem* and SQLite* components", "BaseOrchestrator / BaseTrigger / BaseStateBackend / BaseClientDataStore shared logic", "SQLite engine"]
STUBBED = ["clock", "uuid4", "history writer threads run inline"]
PROBES = ["orchestrator_ops", "broker_ops", "state_ops", "trigger_ops", "client_data_ops", "purges", "auto_purge", "recovery_scans", "illegal_status_requests", "two_key_argument_query"]

import re

_UUID = re.compile(r"[0-9a-f]{8}-[0-9a-f]{4}-[0-9a-f]{4}-[0-9a-f]{4}-[0-9a-f]{12}")
_LC: Lifecycle | None = None


def lc() -> Lifecycle:
    global _LC
    if _LC is None:
        _LC = Lifecycle()
    return _LC


def plan(tier: str) -> list[dict]:
    q = tier == "quick"
    return [{"stratum": "sequences", "runs": 160 if q else 5000, "params": {"max_ops": 150 if q else 300}, "chunk": 6 if q else 125}]


def warmup() -> None:
    run(0, {"max_ops": 30})


def run(seed: int, params: dict, replay: dict | None = None) -> dict:
    from datetime import UTC, datetime, timedelta

    from pynenc.invocation.status import InvocationStatus
    from pynenc.runner.runner_context import RunnerContext
    from pynenc.trigger.trigger_builder import on_event
    from simkit import apps as _apps

    viol: list[dict] = []
    stats: dict[str, int] = {}
    trace: list = []
    comps: set[str] = set()
    purged = False

    def bump(k: str) -> None:
        stats[k] = stats.get(k, 0) + 1

    with SeqEnv(seed, min_size_to_cache=64, auto_final_invocation_purge_hours=0.001, max_pending_seconds=5.0, runner_considered_dead_after_minutes=1.0) as env:
        sim = env.sim
        rng = sim.rng_work
        stacks = list(env.apps)
        from pynenc.trigger.trigger_builder import on_cron

        from pynenc.conf.config_task import ConcurrencyControlType as CC

        tasks = {st: [_apps.register(app, simtasks.keyed2, triggers=on_event("evt"), running_concurrency=CC.KEYS, key_arguments=("a", "b")), _apps.register(app, simtasks.add, triggers=[on_cron("*/5 * * * *"), on_cron("0 * * * *")])] for st, app in env.apps.items()}
        CRON_IDS = ["cron_*/5 * * * *", "cron_0 * * * *"]
        for app in env.apps.values():
            app.register_deferred_triggers()
        runners = ["r1", "r2", "r3"]
        ctxs = {r: RunnerContext(runner_cls="SimRunner", runner_id=r) for r in runners}
        ids: dict[str, list[str]] = {st: [] for st in stacks}  # creation index -> id
        meta: list[dict] = []  # model per invocation: task index, args, status, owner, retries, alive
        keys: dict[str, list[str]] = {st: [] for st in stacks}
        heartbeated: set[str] = set()

        def norm(st: str, v: Any) -> Any:
            """ids -> creation indices, recursively; unordered -> sorted."""
            table = {i: k for k, i in enumerate(ids[st])}
            if isinstance(v, str):
                if v in table:
                    return f"#{table[v]}"
                return _UUID.sub("<uuid>", v)
            if isinstance(v, (list, tuple)):
                return [norm(st, x) for x in v]
            if isinstance(v, (set, frozenset)):
                return sorted((norm(st, x) for x in v), key=repr)
            if isinstance(v, dict):
                return {str(norm(st, k)): norm(st, x) for k, x in v.items()}
            return v

        def both(name: str, fn: Any, ordered: bool = True, model: Any = None) -> Any:
            """Run fn(st, app) on both backends at the same instant and compare."""
            t0 = sim.now
            res = {}
            t_end = t0
            for st, app in env.apps.items():
                sim.now = t0
                try:
                    v = fn(st, app)
                    if hasattr(v, "__iter__") and not isinstance(v, (str, list, tuple, set, dict)):
                        v = list(v)
                    if not ordered and isinstance(v, list):
                        v = set(v)
                    res[st] = ("ok", norm(st, v))
                except Exception as e:  # noqa: BLE001
                    res[st] = ("err", type(e).__name__)
                t_end = max(t_end, sim.now)
            sim.now = t_end
            a, b = res[stacks[0]], res[stacks[1]]
            if a != b:
                kind = "error-class" if a[0] == "err" and b[0] == "err" else ("one-raises" if a[0] != b[0] else "value")
                viol.append({"signature": f"C16/differs/{name}/{kind}", "message": f"{name}: {stacks[0]} -> {str(a)[:300]}   {stacks[1]} -> {str(b)[:300]}; trace tail {trace[-4:]}"})
            elif model is not None and a[0] == "ok" and a[1] != model:
                viol.append({"signature": f"C16/model/{name}", "message": f"{name}: both backends -> {str(a[1])[:300]}, reference model -> {str(model)[:300]}; trace tail {trace[-4:]}"})
            return res[stacks[0]]

        def alive() -> list[int]:
            return [i for i, m in enumerate(meta) if m["alive"]]

        n_ops = rng.randint(min(60, int(params.get("max_ops", 150))), int(params.get("max_ops", 150)))
        for step in range(n_ops):
            sim.advance(rng.choice([0.001, 0.001, 0.01, 1.0]))
            r = rng.random()
            cand = alive()
            # ------------------------------------------------------------- orchestrator
            if r < 0.12 or not cand:
                if len(meta) >= 8:
                    continue
                ti = rng.randrange(2)
                a, b = rng.randint(0, 1), rng.randint(0, 1)

                def reg(st: str, app: Any) -> str:
                    t = tasks[st][ti]
                    inv = t(a, b) if ti == 0 else t(a, b)
                    ids[st].append(str(inv.invocation_id))
                    return str(inv.invocation_id)

                out = both("register", reg)
                if out[0] == "ok":
                    registrar = env.apps[stacks[0]].orchestrator.get_invocation_status_record(ids[stacks[0]][-1]).runner_id
                    meta.append({"task": ti, "args": (a, b), "status": ("REGISTERED", registrar), "retries": 0, "alive": True, "queued": 1})
                comps.add("orch")
                bump("probe.orchestrator_ops")
                trace.append(("register", ti, a, b))
            elif r < 0.32:
                i = rng.choice(cand)
                who = rng.choice(runners)
                if rng.random() < 0.75:
                    legal = [s for s in ALL if lc().step(meta[i]["status"], s, who)[0] == "ok"]
                    req = rng.choice(legal) if legal else rng.choice(ALL)
                else:
                    req = rng.choice(ALL)
                    bump("probe.illegal_status_requests")
                exp, nxt = lc().step(meta[i]["status"], req, who)
                out = both(f"set_status/{'legal' if exp == 'ok' else exp}", lambda st, app: app.orchestrator.set_invocation_status(ids[st][i], InvocationStatus[req], ctxs[who]))
                if (out[0] == "ok") != (exp == "ok"):
                    viol.append({"signature": f"C16/model/set_status/{exp}", "message": f"set_status {req} by {who} on #{i} from {meta[i]['status']}: backends {out}, model {exp}"})
                if exp == "ok" and out[0] == "ok":
                    meta[i]["status"] = nxt
                    if req in FINALS:
                        meta[i]["final_at"] = sim.now
                comps.add("orch")
                bump("probe.orchestrator_ops")
                trace.append(("status", i, req, who, exp))
            elif r < 0.40:
                ti = rng.randrange(2)
                kind = rng.choice(["existing", "existing", "task", "call", "page", "count", "filter"])
                sts = rng.sample(ALL, rng.randint(1, 3)) if rng.random() < 0.7 else None
                stenum = [InvocationStatus[s] for s in sts] if sts else None
                if kind == "existing":
                    # task 0 has key arguments (a, b): its invocations are in the argument index
                    ka = rng.choice([None, {"a": rng.randint(0, 1)}, {"b": rng.randint(0, 1)}, {"a": rng.randint(0, 1), "b": rng.randint(0, 1)}, {"a": rng.randint(0, 1), "b": rng.randint(0, 1)}]) if ti == 0 else None
                    if ka and len(ka) == 2:
                        bump("probe.two_key_argument_query")
                    unknown_args = bool(ka) and any(meta[i]["task"] == ti and meta[i]["args"] is None for i in cand)  # launched by a trigger
                    want_e = None if unknown_args else sorted({f"#{i}" for i in cand if meta[i]["task"] == ti and (not ka or all(meta[i]["args"][0 if k_ == "a" else 1] == v_ for k_, v_ in ka.items())) and (not sts or meta[i]["status"][0] in sts)}, key=repr)

                    def q(st: str, app: Any) -> Any:
                        t = tasks[st][ti]
                        ser = {k: app.client_data_store.serialize(v) for k, v in ka.items()} if ka else None
                        return app.orchestrator.get_existing_invocations(t, ser, stenum)

                    both("get_existing_invocations", q, ordered=False, model=want_e)
                elif kind == "task":
                    want = {f"#{i}" for i in cand if meta[i]["task"] == ti}
                    both("get_task_invocation_ids", lambda st, app: app.orchestrator.get_task_invocation_ids(tasks[st][ti].task_id), ordered=False, model=sorted(want, key=repr))
                elif kind == "call" and cand:
                    i = rng.choice(cand)
                    both("get_call_invocation_ids", lambda st, app: app.orchestrator.get_call_invocation_ids(app.state_backend.get_invocation(ids[st][i]).call.call_id), ordered=False)
                elif kind == "page":
                    lim, off = rng.choice([1, 2, 5, 100]), rng.choice([0, 0, 1, 3])
                    use_task = rng.random() < 0.5
                    both("get_invocation_ids_paginated", lambda st, app: app.orchestrator.get_invocation_ids_paginated(tasks[st][ti].task_id if use_task else None, stenum, lim, off), ordered=True)
                elif kind == "count":
                    use_task = rng.random() < 0.5
                    want_n = sum(1 for i in cand if (not use_task or meta[i]["task"] == ti) and (sts is None or meta[i]["status"][0] in sts))
                    both("count_invocations", lambda st, app: app.orchestrator.count_invocations(tasks[st][ti].task_id if use_task else None, stenum), model=want_n)
                elif cand:
                    sub = rng.sample(cand, rng.randint(1, len(cand)))
                    fs = frozenset(stenum or [InvocationStatus.SUCCESS])
                    want = sorted((f"#{i}" for i in sub if meta[i]["status"][0] in {s.name for s in fs}), key=repr)
                    both("filter_by_status", lambda st, app: app.orchestrator.filter_by_status([ids[st][i] for i in sub], fs), ordered=False, model=want)
                comps.add("orch")
                bump("probe.orchestrator_ops")
                trace.append(("query", kind))
            elif r < 0.45 and cand:
                i = rng.choice(cand)
                if rng.random() < 0.5:
                    both("increment_invocation_retries", lambda st, app: app.orchestrator.increment_invocation_retries(ids[st][i]))
                    meta[i]["retries"] += 1
                both("get_invocation_retries", lambda st, app: app.orchestrator.get_invocation_retries(ids[st][i]), model=meta[i]["retries"])
                comps.add("orch")
                trace.append(("retries", i))
            elif r < 0.52:
                kind = rng.choice(["hb", "active", "scan", "service"])
                if kind == "service" and not heartbeated:
                    kind = "hb"
                if kind == "hb":
                    who = rng.sample(runners, rng.randint(1, 2))
                    heartbeated.update(who)
                    elig = rng.random() < 0.5
                    both("register_runner_heartbeats", lambda st, app: app.orchestrator.register_runner_heartbeats(list(who), can_run_atomic_service=elig))
                elif kind == "active":
                    flt = rng.choice([None, True, False])
                    both("get_active_runners", lambda st, app: [(x.runner_id, x.allow_to_run_atomic_service, round(x.creation_time.timestamp(), 5), round(x.last_heartbeat.timestamp(), 5), x.last_service_start is not None) for x in app.orchestrator.get_active_runners(flt)], ordered=True)
                elif kind == "service":
                    who = rng.choice(sorted(heartbeated))
                    s0 = datetime.fromtimestamp(sim.now, UTC)
                    both("record_atomic_service_execution", lambda st, app: app.orchestrator.record_atomic_service_execution(who, s0, s0 + timedelta(seconds=1)))
                else:
                    bump("probe.recovery_scans")
                    both("get_pending_invocations_for_recovery", lambda st, app: app.orchestrator.get_pending_invocations_for_recovery(), ordered=False)
                    both("get_running_invocations_for_recovery", lambda st, app: app.orchestrator.get_running_invocations_for_recovery(), ordered=False)
                comps.add("orch")
                trace.append(("runners", kind))
            elif r < 0.58 and len(cand) >= 2:
                kind = rng.choice(["wait", "blocking"])
                if kind == "wait":
                    a_, b_ = rng.sample(cand, 2)
                    if meta[b_]["status"][0] not in FINALS:
                        both("waiting_for_results", lambda st, app: app.orchestrator.waiting_for_results(ids[st][a_], [ids[st][b_]]))
                else:
                    k = rng.choice([1, 2, 10])
                    out = both("get_blocking_invocations(count)", lambda st, app: len(list(app.orchestrator.get_blocking_invocations(k))))
                    both("get_blocking_invocations(all)", lambda st, app: app.orchestrator.get_blocking_invocations(50), ordered=False)
                comps.add("orch")
                trace.append(("waitgraph", kind))
            elif r < 0.60:
                sim.advance(rng.choice([1.0, 5.0, 61.0]))
                both("auto_purge", lambda st, app: app.orchestrator.auto_purge())
                # which final invocations are gone is decided by the purge horizon; both backends
                # must agree (differential read-out below); the model follows the first backend
                for i in cand:
                    if meta[i]["status"][0] in FINALS:
                        try:
                            env.apps[stacks[0]].orchestrator.get_invocation_status_record(ids[stacks[0]][i])
                        except KeyError:
                            meta[i]["alive"] = False
                purged = True
                bump("probe.auto_purge")
                trace.append(("auto_purge",))
            # ------------------------------------------------------------- broker
            elif r < 0.68:
                kind = rng.choice(["route", "retrieve", "count"])
                if kind == "route" and cand:
                    i = rng.choice(cand)
                    both("broker.route_invocation", lambda st, app: app.broker.route_invocation(ids[st][i]))
                elif kind == "retrieve":
                    both("broker.retrieve_invocation", lambda st, app: app.broker.retrieve_invocation())
                else:
                    both("broker.count_invocations", lambda st, app: app.broker.count_invocations())
                comps.add("broker")
                bump("probe.broker_ops")
                trace.append(("broker", kind))
            # ------------------------------------------------------------- state backend
            elif r < 0.80 and cand:
                i = rng.choice(cand)
                kind = rng.choice(["set_result", "get_result", "set_exc", "get_exc", "history", "wfdata", "children", "by_workflow", "get_inv"])
                if kind == "set_result":
                    val = rng.choice([1, "x" * 100, {"k": [1, 2]}, None])
                    both("state.set_result", lambda st, app: app.state_backend.set_result(ids[st][i], val))
                elif kind == "get_result":
                    both("state.get_result", lambda st, app: repr(app.state_backend.get_result(ids[st][i])))
                elif kind == "set_exc":
                    both("state.set_exception", lambda st, app: app.state_backend.set_exception(ids[st][i], ValueError("boom", step)))
                elif kind == "get_exc":
                    both("state.get_exception", lambda st, app: repr(app.state_backend.get_exception(ids[st][i])))
                elif kind == "history":
                    both("state.get_history", lambda st, app: [(h.status_record.status.name, h.status_record.runner_id, h.runner_context_id) for h in app.state_backend.get_history(ids[st][i])], ordered=True)
                elif kind == "wfdata":
                    key, val = rng.choice(["k", "k2"]), rng.choice([1, "v", [1, 2]])

                    def wf(st: str, app: Any) -> Any:
                        w_ = app.state_backend.get_invocation(ids[st][i]).workflow
                        if rng_flag:
                            app.state_backend.set_workflow_data(w_, key, val)
                        return repr(app.state_backend.get_workflow_data(w_, key, "dflt"))

                    rng_flag = rng.random() < 0.6
                    both("state.workflow_data", wf)
                elif kind == "children":
                    both("state.get_child_invocations", lambda st, app: app.state_backend.get_child_invocations(ids[st][i]), ordered=False)
                elif kind == "by_workflow":
                    both("state.get_invocation_ids_by_workflow", lambda st, app: app.state_backend.get_invocation_ids_by_workflow(workflow_id=str(app.state_backend.get_invocation(ids[st][i]).workflow.workflow_id)), ordered=False)
                else:
                    both("state.get_invocation", lambda st, app: (str(app.state_backend.get_invocation(ids[st][i]).invocation_id), sorted(app.state_backend.get_invocation(ids[st][i]).arguments.kwargs.items())))
                comps.add("state")
                bump("probe.state_ops")
                trace.append(("state", kind, i))
            # ------------------------------------------------------------- trigger store
            elif r < 0.90:
                kind = rng.choice(["event", "valid", "loop", "claim", "cron_store", "cron_get"])
                if kind == "event":
                    both("trigger.emit_event", lambda st, app: app.trigger.emit_event("evt", {"n": step}) and None)
                elif kind == "valid":
                    both("trigger.get_valid_conditions(count)", lambda st, app: len(app.trigger.get_valid_conditions()))
                elif kind == "loop":
                    n_before = len(meta)

                    def loop(st: str, app: Any) -> Any:
                        before = app.orchestrator.count_invocations()
                        app.trigger.trigger_loop_iteration()
                        after = app.orchestrator.count_invocations()
                        # the launched invocations are new ids: learn them
                        for x in app.orchestrator.get_invocation_ids_paginated(limit=after - before):
                            if str(x) not in ids[st]:
                                ids[st].append(str(x))
                        return after - before

                    out = both("trigger.trigger_loop_iteration(launched)", loop)
                    if out[0] == "ok" and isinstance(out[1], int):
                        for _ in range(out[1]):
                            if len(ids[stacks[0]]) > len(meta) and len(ids[stacks[1]]) > len(meta):
                                a0 = env.apps[stacks[0]]
                                nid = ids[stacks[0]][len(meta)]
                                registrar = a0.orchestrator.get_invocation_status_record(nid).runner_id
                                fname = a0.state_backend.get_invocation(nid).task.task_id.func_name
                                meta.append({"task": 0 if fname == "keyed2" else 1, "args": None, "status": ("REGISTERED", registrar), "retries": 0, "alive": True, "queued": 1})
                    del n_before
                elif kind == "claim":
                    rid = rng.choice(["run-a", "run-b"])
                    exp_s = rng.choice([1, 60])
                    both("trigger.claim_trigger_run", lambda st, app: app.trigger.claim_trigger_run(rid, exp_s))
                elif kind == "cron_store":
                    cid = rng.choice(CRON_IDS)
                    t_exec = datetime.fromtimestamp(int(sim.now), UTC)
                    expected = rng.choice(["none", "stored", "wrong"])

                    def cs(st: str, app: Any) -> Any:
                        cur = app.trigger.get_last_cron_execution(cid)
                        e = None if expected == "none" else (cur if expected == "stored" else datetime.fromtimestamp(1000, UTC))
                        return app.trigger.store_last_cron_execution(cid, t_exec, expected_last_execution=e)

                    both(f"trigger.store_last_cron_execution/{expected}", cs)
                else:
                    cid = rng.choice(CRON_IDS)
                    both("trigger.get_last_cron_execution", lambda st, app: (lambda d: None if d is None else round(d.timestamp(), 3))(app.trigger.get_last_cron_execution(cid)))
                comps.add("trigger")
                bump("probe.trigger_ops")
                trace.append(("trigger", kind))
            # ------------------------------------------------------------- client data + purges
            elif r < 0.96:
                kind = rng.choice(["store", "resolve"])
                if kind == "store":
                    val = rng.choice(["S" * 100, {"big": "B" * 80}, "small", [1, 2, 3]])

                    def stor(st: str, app: Any) -> Any:
                        k = app.client_data_store.serialize(val)
                        if app.client_data_store.is_reference(k):
                            keys[st].append(k)
                        return k

                    both("client_data.serialize", stor)
                elif keys[stacks[0]] and len(keys[stacks[0]]) == len(keys[stacks[1]]):
                    j = rng.randrange(len(keys[stacks[0]]))
                    both("client_data.resolve", lambda st, app: repr(app.client_data_store.resolve(keys[st][j])))
                comps.add("client")
                bump("probe.client_data_ops")
                trace.append(("client", kind))
            else:
                # queue purge is part of the broker's own contract (C08); purges of the other
                # components belong to C17 and are not in this property's alphabet
                both("purge/broker", lambda st, app: app.broker.purge())
                purged = True
                bump("probe.purges")
                trace.append(("purge", "broker"))
            # ------------------------------------------------------------- periodic full read-out
            if step % 10 == 9:
                snaps = {}
                for st, app in env.apps.items():
                    s_ = readout.snapshot(app, ids[st], keys[st], runner_ids=runners)
                    s_.pop("runner_contexts", None)
                    for inv in s_["invocations"].values():
                        inv.pop("ts", None)
                    snaps[st] = norm(st, s_)
                    if isinstance(snaps[st].get("blocking"), list):
                        snaps[st]["blocking"] = sorted(snaps[st]["blocking"])
                d = readout.diff(snaps[stacks[0]], snaps[stacks[1]])
                if d:
                    comp = d[0].split("/")[1] if "/" in d[0] else "?"
                    sub = d[0].split("/")[3].split(":")[0] if d[0].count("/") >= 3 else ""
                    viol.append({"signature": f"C16/readout-differs/{comp}/{sub}", "message": f"after step {step}: mem vs sqlite read-out: {d[:4]}; trace tail {trace[-6:]}"})
        tr = repr(trace).encode()
        return {
            "violations": viol,
            "stats": stats,
            "steps": len(trace),
            "sim_time": round(sim.now - sim.epoch, 4),
            "sched_hash": hashlib.sha256(tr).hexdigest()[:16],
            "nontrivial": len(comps) >= 4 and purged,
            "sample": {"ops": [list(map(str, t)) for t in trace[:16]], "len": len(trace)},
            "digest": hashlib.sha256(tr + repr(sorted(v["signature"] for v in viol)).encode()).hexdigest(),
        }


_ = AVAILABLE
