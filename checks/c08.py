"""C08 -- the broker delivers each routed message exactly once, first in first out.

Strata:
  seq         engine A: route / route-batch (with repeated ids) / retrieve / count /
              purge sequences on both brokers in lock-step with a list model
  conc-sqlite engine B: 2-3 actors (own app objects, one database file) issue
              route / retrieve / count concurrently; pre-emption between any two
              SQL statements; linearizability against the FIFO model +
              conservation
  conc-mem    engine B with line-level pre-emption on the in-memory broker
"""

from __future__ import annotations

import hashlib
from typing import Any

from models.linearize import FifoModel, linearizable
from simkit.seq import SeqEnv
from simkit.world import World

PROPERTY = "C08"
LEVEL = "exploration"
ENGINES = ['A', 'B']
TECHNIQUE = 'deterministic simulation: lock-step FIFO model for sequences; seeded SQL-statement / source-line interleavings of concurrent routers and retrievers with a Wing-Gong linearizability check + conservation'
LEVEL_TEXT = 'Sequential stratum: seeded route / batch / retrieve / count / purge sequences on both real brokers against a list model, compared after every operation. Concurrent strata: 2-3 simulated processes with own connections on one real SQLite file (and threads on the in-memory broker) under seeded schedules; each short history (<= 14 ops, stamped with the global event sequence) is checked for linearizability against the FIFO model and for conservation (delivered + remaining = routed).'
LEVEL_NOTE = "Trusted: FIFO model and linearizability checker (models/linearize.py), SQLite seam, julianday('now') mapped to the virtual clock. Batch routing is modelled as a sequence of single routings (batch atomicity is not claimed by the property)."
MINIMIZE = None
RULE = (
    "seq: seeded operation sequences (20-120 ops, ids drawn from a small pool so that repeats occur) on MemBroker and SQLiteBroker "
    "compared op by op with a list; conc: 2-3 simulated processes each issuing 3-5 operations with seeded pre-emption between SQL "
    "statements (sqlite) or source lines (mem); history (<= 14 ops, stamped with the global event sequence) checked for "
    "linearizability against the FIFO model, plus conservation delivered + remaining = routed. Non-trivial = at least one "
    "context switch landed inside an operation (conc) / at least one retrieve on a non-empty and one on an empty queue (seq); "
    "distinct = distinct hash of switch sites / of the operation sequence."
)
ASSUMPTIONS = [
    "broker messages are opaque id strings (no invocation record is needed to route or retrieve)",
    "route_invocations (batch) is a sequence of single routings in list order; atomicity of a batch is not part of the property",
    "in-memory broker: threads of one process image retrieve and route concurrently (line-level pre-emption)",
]
REAL = ["MemBroker", "SQLiteBroker", "sqlite_utils.SQLiteConnection retry loop", "SQLite engine (WAL, real file on tmpfs)"]
STUBBED = ["busy handler (timeout 0 + simulator wake-up)", "julianday('now') -> virtual clock", "thread scheduling"]
PROBES = ["switch_inside_op", "db_busy_wait", "empty_retrieve", "duplicate_id_routed"]


def plan(tier: str) -> list[dict]:
    q = tier == "quick"
    return [
        {"stratum": "seq", "runs": 64 if q else 2000, "params": {"mode": "seq"}, "chunk": 16 if q else 64},
        {"stratum": "conc-sqlite", "runs": 320 if q else 12000, "params": {"mode": "conc", "stack": "sqlite"}, "chunk": 20 if q else 200},
        {"stratum": "conc-mem", "runs": 160 if q else 6000, "params": {"mode": "conc", "stack": "mem"}, "chunk": 20 if q else 200},
    ]


def warmup() -> None:
    run(0, {"mode": "seq"})
    run(0, {"mode": "conc", "stack": "sqlite"})
    run(0, {"mode": "conc", "stack": "mem"})


def run(seed: int, params: dict, replay: dict | None = None) -> dict:
    if params["mode"] == "seq":
        return _run_seq(seed)
    return _run_conc(seed, params["stack"], replay)


# ----------------------------------------------------------------------------- engine A
def _run_seq(seed: int) -> dict:
    viol: list[dict] = []
    stats: dict[str, int] = {}
    trace = []
    with SeqEnv(seed) as env:
        rng = env.sim.rng_work
        model: list[str] = []
        pool = [f"m{i}" for i in range(rng.randint(2, 6))]
        n = rng.randint(20, 120)
        empties = nonempties = 0
        for step in range(n):
            r = rng.random()
            env.sim.advance(rng.choice([0.0, 1e-6, 0.001, 1.0]))
            if r < 0.35:
                op, arg = "route", rng.choice(pool)
            elif r < 0.45:
                op, arg = "route_batch", [rng.choice(pool) for _ in range(rng.randint(0, 4))]
            elif r < 0.85:
                op, arg = "retrieve", None
            elif r < 0.97:
                op, arg = "count", None
            else:
                op, arg = "purge", None
            if op == "route" and arg in model:
                stats["probe.duplicate_id_routed"] = stats.get("probe.duplicate_id_routed", 0) + 1
            exp = FifoModel(model)
            want = exp.apply(op, arg)
            model = exp.q
            if op == "retrieve":
                if want is None:
                    empties += 1
                    stats["probe.empty_retrieve"] = stats.get("probe.empty_retrieve", 0) + 1
                else:
                    nonempties += 1
            got = {}
            for st, app in env.apps.items():
                b = app.broker
                try:
                    if op == "route":
                        res = b.route_invocation(arg)
                    elif op == "route_batch":
                        res = b.route_invocations(list(arg))
                    elif op == "retrieve":
                        res = b.retrieve_invocation()
                    elif op == "count":
                        res = b.count_invocations()
                    else:
                        res = b.purge()
                except Exception as e:  # noqa: BLE001
                    res = f"raised:{type(e).__name__}:{e}"
                got[st] = res
                if res != want:
                    viol.append({"signature": f"C08/seq/{st}/{op}/wrong-result", "message": f"step {step}: {st} {op}({arg}) -> {res!r}, FIFO model says {want!r}; model queue before op: {FifoModel(model).q[:8]}"})
                cnt = b.count_invocations()
                if cnt != len(model):
                    viol.append({"signature": f"C08/seq/{st}/count-after-{op}", "message": f"step {step}: {st} count {cnt} != routed - retrieved = {len(model)}"})
            trace.append((op, arg if not isinstance(arg, list) else tuple(arg), want))
        tr = repr(trace).encode()
        return {
            "violations": viol,
            "stats": stats,
            "steps": n,
            "sim_time": round(env.sim.now - env.sim.epoch, 4),
            "sched_hash": hashlib.sha256(tr).hexdigest()[:16],
            "nontrivial": empties > 0 and nonempties > 0,
            "sample": {"ops": [list(map(str, t)) for t in trace[:10]], "len": n},
            "digest": hashlib.sha256(tr).hexdigest(),
        }


# ----------------------------------------------------------------------------- engine B
def _run_conc(seed: int, stack: str, replay: dict | None) -> dict:
    import random

    rng = random.Random(f"{seed}:c08")
    n_actors = rng.choice([2, 2, 3])
    policy = rng.choice(["rand", "rand", "pct", "rr"])
    parg = {"rand": rng.choice([0.15, 0.3, 0.5]), "pct": rng.choice([1, 2, 3]), "rr": rng.choice([1, 2, 3])}[policy]
    actors = [f"p{i}" for i in range(n_actors)]
    trace_files = ["broker/mem_broker.py"] if stack == "mem" else None
    schedule = replay.get("schedule") if replay else None
    viol: list[dict] = []
    with World(seed, stack, actors, policy=policy, policy_arg=parg, schedule=schedule, trace_files=trace_files, max_steps=20000) as w:
        sim = w.sim
        # initial content, routed before the scheduled phase
        init = [f"a{i}" for i in range(rng.randint(0, 3))]
        if init and rng.random() < 0.4:
            init.append(init[0])  # repeated id
        first_app = w.apps[actors[0]]
        for m in init:
            first_app.broker.route_invocation(m)
        history: list[dict] = []
        plans = {}
        total_ops = 0
        uid = 0
        for ai, a in enumerate(actors):
            ops = []
            can_retrieve = True
            for _ in range(rng.randint(2, 4)):
                if total_ops >= 14 - len(init):
                    break
                r = rng.random()
                if r < 0.35:
                    uid += 1
                    ops.append(("route", f"{a}m{uid}"))
                elif r < 0.42:
                    ids = []
                    for _ in range(2):
                        uid += 1
                        ids.append(f"{a}m{uid}")
                    ops.append(("route_batch", ids))
                elif r < 0.88 and can_retrieve:
                    ops.append(("retrieve", None))
                elif r < 0.88:
                    uid += 1
                    ops.append(("route", f"{a}m{uid}"))
                else:
                    ops.append(("count", None))
                total_ops += 1
            plans[a] = ops

        def make_main(a: str) -> Any:
            app = w.apps[a]

            def main() -> None:
                b = app.broker
                for k, (op, arg) in enumerate(plans[a]):
                    rec = {"id": f"{a}.{k}", "op": op, "arg": arg, "inv": len(sim.log)}
                    sim.log_event("op-inv", rec["id"])
                    sw0 = len(sim.switch_sites)
                    try:
                        if op == "route":
                            res = b.route_invocation(arg)
                        elif op == "route_batch":
                            res = b.route_invocations(list(arg))
                        elif op == "retrieve":
                            res = b.retrieve_invocation()
                            res = str(res) if res is not None else None
                        else:
                            res = b.count_invocations()
                    except Exception as e:  # noqa: BLE001
                        res = f"raised:{type(e).__name__}"
                        rec["error"] = f"{type(e).__name__}: {e}"
                    rec["res"] = res
                    if len(sim.switch_sites) > sw0:
                        sim.bump("probe.switch_inside_op")
                    sim.log_event("op-ret", (rec["id"], str(res)))
                    rec["ret"] = len(sim.log)
                    history.append(rec)

            return main

        w.run([(a, "main", make_main(a)) for a in actors])
        common = w.result_common()
        # drain what is left (sequentially, after the run)
        remaining = []
        while True:
            m = first_app.broker.retrieve_invocation()
            if m is None:
                break
            remaining.append(str(m))
            if len(remaining) > 100:
                break
        if sim.abort_reason:
            common["inconclusive"] = True
        else:
            errors = [h for h in history if "error" in h]
            for h in errors:
                viol.append({"signature": f"C08/conc/{stack}/{h['op']}/raised/{h['error'].split(':')[0]}", "message": f"{h['id']} {h['op']} raised {h['error']}"})
            routed = list(init)
            for h in history:
                if h["op"] == "route":
                    routed.append(h["arg"])
                elif h["op"] == "route_batch":
                    routed.extend(h["arg"])
            delivered = [h["res"] for h in history if h["op"] == "retrieve" and h["res"] is not None]
            if not errors:
                if sorted(delivered + remaining) != sorted(routed):
                    lost = sorted(set(routed) - set(delivered + remaining))
                    dup = sorted({x for x in delivered + remaining if (delivered + remaining).count(x) > routed.count(x)})
                    kind = "lost" if lost else "duplicated"
                    viol.append({"signature": f"C08/conc/{stack}/conservation/{kind}", "message": f"routed {routed}, delivered {delivered}, remaining {remaining}: lost={lost} delivered-twice={dup}"})
                else:
                    # a batch is a loop of single routings (atomicity of the batch is not
                    # claimed): one route op per id, same interval, program order kept
                    hist = []
                    for h in history:
                        if h["op"] != "route_batch":
                            hist.append(dict(h))
                            continue
                        prev = None
                        for j, m in enumerate(h["arg"]):
                            hist.append({"id": f"{h['id']}.{j}", "op": "route", "arg": m, "res": None, "inv": h["inv"], "ret": h["ret"], "after": prev})
                            prev = f"{h['id']}.{j}"
                    # the final drain is one more sequential observation
                    for i, m in enumerate(remaining + [None]):
                        hist.append({"id": f"drain{i}", "op": "retrieve", "arg": None, "res": m, "inv": 10**9 + 2 * i, "ret": 10**9 + 2 * i + 1})
                    ok, _ = linearizable(hist, FifoModel(init))
                    if ok is False:
                        viol.append({"signature": f"C08/conc/{stack}/not-linearizable", "message": "history is not a linearization of a FIFO queue: " + "; ".join(f"{h['id']}[{h['inv']},{h['ret']}] {h['op']}({h.get('arg')})={h['res']}" for h in hist)})
                    elif ok is None:
                        common["inconclusive"] = True
        st = common["stats"]
        st["probe.db_busy_wait"] = st.get("sql.busy_wait", 0)
        common.update(
            {
                "violations": viol,
                "nontrivial": st.get("probe.switch_inside_op", 0) > 0,
                "sample": {"stack": stack, "policy": [policy, parg], "init": init, "plans": {a: [[o, x] for o, x in p] for a, p in plans.items()}, "history": [[h["id"], h["op"], h.get("arg"), h["res"], h["inv"], h["ret"]] for h in history][:14]},
            }
        )
        return common
