"""C07 -- registration concurrency collapses duplicate submissions onto one invocation.

Engine A: sequences of submissions (argument values drawn with repeats;
positional / keyword / defaults-omitted spellings; occasionally a large value
that is externalised) interleaved with claims and completions that move
invocations out of REGISTERED, for every registration mode x key-argument
choice x raise option, on both backends in lock-step with a reference model
(key -> the REGISTERED invocation).

Oracle after every step: identity of what each submission returned (the
existing invocation, or a new distinct one); at most one REGISTERED invocation
per key; a rejected submission changes nothing (invocation count, queue
length, REGISTERED set); with registration concurrency disabled every
submission creates a new invocation.
"""

from __future__ import annotations

import hashlib
from typing import Any

from simkit.seq import SeqEnv
from workloads import simtasks

PROPERTY = "C07"
LEVEL = "exploration"
ENGINES = ["A"]
TECHNIQUE = "deterministic simulation (sequential engine): seeded submission / claim / completion sequences on both real orchestrators in lock-step with a key -> REGISTERED-invocation model"
LEVEL_TEXT = (
    "Each run fixes (mode, key arguments, raise option, externalisation threshold) and generates 15-60 operations over a small argument "
    "domain so that keys repeat; every submission goes through Task.__call__ with a seeded spelling, claims and completions go through "
    "set_invocation_status; after every operation the returned identity, the REGISTERED set per key, the invocation count and the queue "
    "length of both backends are compared with the model. Sequences are sampled."
)
LEVEL_NOTE = "Trusted: the model of the registration key (task; task + all serialized arguments; task + key arguments), simkit clock/uuid shims. The raise option is exercised with KEYS (as the property states it)."
MINIMIZE = None
RULE = (
    "one run = mode in DISABLED/TASK/ARGUMENTS/KEYS x key arguments in {(a), (a,b)} x raise option x 15-60 operations (70% submissions over "
    "a in 0..1, b in 0..1, c in 0..2 or a large string; 30% moves of an invocation along legal lifecycle edges, incl. KILLED / RETRY / REROUTED / FAILED); non-trivial = at least one submission was collapsed onto an "
    "existing invocation and at least one created a new one after a claim freed the key; distinct = hash of the op sequence."
)
ASSUMPTIONS = [
    "sequential submissions (the property's quantifier); concurrent submitters are not covered",
    "with a non-raising KEYS/TASK mode a submission with different non-key arguments is collapsed onto the existing invocation (as route_call documents)",
]
REAL = ["Task.__call__ / Arguments.from_call", "BaseOrchestrator.route_call", "Mem/SQLite get_existing_invocations + argument index", "client data store (externalised arguments)", "brokers"]
STUBBED = ["clock", "uuid4", "history writer threads run inline"]
PROBES = ["collapsed", "new_after_key_freed", "rejected_different_args", "reused_with_different_args", "externalised_argument", "disabled_always_new", "moved_to_requeued_status"]

BIG = "L" * 300


def plan(tier: str) -> list[dict]:
    q = tier == "quick"
    return [{"stratum": "sequences", "runs": 160 if q else 8000, "params": {}, "chunk": 10 if q else 200}]


def warmup() -> None:
    run(0, {})


def _spell(rng: Any, t: Any, a: Any, b: Any, c: Any) -> Any:
    """One of the equivalent spellings of keyed2(a, b, c)."""
    forms = [lambda: t(a, b, c), lambda: t(a=a, b=b, c=c), lambda: t(a, c=c, b=b), lambda: t(c=c, a=a, b=b)]
    if c == 0:
        forms += [lambda: t(a, b), lambda: t(a=a, b=b)]
        if b == 0:
            forms += [lambda: t(a), lambda: t(a=a)]
    return rng.choice(forms)()


def run(seed: int, params: dict, replay: dict | None = None) -> dict:
    from pynenc.conf.config_task import ConcurrencyControlType as CC
    from pynenc.exceptions import InvocationConcurrencyWithDifferentArgumentsError
    from pynenc.invocation.status import InvocationStatus
    from pynenc.runner.runner_context import RunnerContext
    from simkit import apps as _apps

    viol: list[dict] = []
    stats: dict[str, int] = {}
    trace: list = []
    with SeqEnv(seed, min_size_to_cache=128) as env:
        sim = env.sim
        rng = sim.rng_work
        mode = rng.choice(["DISABLED", "TASK", "ARGUMENTS", "KEYS", "KEYS"])
        key_args = rng.choice([("a",), ("a", "b")])
        raise_opt = mode == "KEYS" and rng.random() < 0.5
        opts: dict[str, Any] = {"registration_concurrency": CC[mode]}
        if mode == "KEYS":
            opts["key_arguments"] = key_args
            opts["on_diff_non_key_args_raise"] = raise_opt
        tasks = {st: _apps.register(app, simtasks.keyed2, **opts) for st, app in env.apps.items()}
        ctx = RunnerContext(runner_cls="SimRunner", runner_id="r1")

        def key_of(a: Any, b: Any, c: Any) -> tuple:
            if mode == "TASK":
                return ("task",)
            if mode == "ARGUMENTS":
                return (a, b, c)
            if mode == "KEYS":
                return tuple({"a": a, "b": b}[k] for k in key_args)
            return ("disabled",)

        # model: list of invocations {args, status}; per backend ids
        minv: list[dict] = []
        collapsed = freed_new = False
        freed_keys: set[tuple] = set()
        n_ops = rng.randint(15, 60)
        for step in range(n_ops):
            sim.advance(0.001)
            if rng.random() < 0.7 or not minv:
                a, b = rng.randint(0, 1), rng.randint(0, 1)
                c = rng.choice([0, 0, 1, 2, BIG])
                if c == BIG:
                    stats["probe.externalised_argument"] = stats.get("probe.externalised_argument", 0) + 1
                k = key_of(a, b, c)
                existing = None
                if mode != "DISABLED":
                    cand = [i for i, m in enumerate(minv) if m["status"] == "REGISTERED" and key_of(*m["args"]) == k]
                    if len(cand) > 1:
                        viol.append({"signature": f"C07/model/two-registered-per-key/{mode}", "message": f"model holds two REGISTERED for key {k}: {cand}"})
                    existing = cand[0] if cand else None
                if existing is None:
                    exp = ("new", None)
                elif minv[existing]["args"] == (a, b, c):
                    exp = ("reuse", existing)
                elif raise_opt:
                    exp = ("raise", existing)
                else:
                    exp = ("reuse", existing)
                    stats["probe.reused_with_different_args"] = stats.get("probe.reused_with_different_args", 0) + 1
                before = {st: (app.orchestrator.count_invocations(), app.broker.count_invocations()) for st, app in env.apps.items()}
                got: dict[str, Any] = {}
                for st, t in tasks.items():
                    try:
                        inv = _spell(rng, t, a, b, c)
                        got[st] = ("ok", str(inv.invocation_id))
                    except InvocationConcurrencyWithDifferentArgumentsError:
                        got[st] = ("raise", None)
                    except Exception as e:  # noqa: BLE001
                        got[st] = (f"error:{type(e).__name__}:{e}", None)
                after = {st: (app.orchestrator.count_invocations(), app.broker.count_invocations()) for st, app in env.apps.items()}
                desc = f"step {step}: submit keyed2(a={a}, b={b}, c={'BIG' if c == BIG else c}) mode={mode} key_arguments={key_args} raise={raise_opt}; model expects {exp[0]}"
                for st in env.apps:
                    o, iid = got[st]
                    if exp[0] == "new":
                        if o != "ok":
                            viol.append({"signature": f"C07/{st}/new-refused/{mode}", "message": f"{desc}; got {o}"})
                        elif any(iid == m["ids"][st] for m in minv):
                            viol.append({"signature": f"C07/{st}/new-returned-existing/{mode}", "message": f"{desc}; returned an existing invocation although no REGISTERED invocation has this key"})
                        elif after[st] != (before[st][0] + 1, before[st][1] + 1):
                            viol.append({"signature": f"C07/{st}/new-counts/{mode}", "message": f"{desc}; (invocations, queue) {before[st]} -> {after[st]}"})
                    elif exp[0] == "reuse":
                        if o != "ok":
                            viol.append({"signature": f"C07/{st}/reuse-refused/{mode}", "message": f"{desc}; got {o}"})
                        elif iid != minv[exp[1]]["ids"][st]:
                            viol.append({"signature": f"C07/{st}/duplicate-created/{mode}", "message": f"{desc}; a REGISTERED invocation with the same key exists (model #{exp[1]}) but the submission returned a different invocation"})
                        elif after[st] != before[st]:
                            viol.append({"signature": f"C07/{st}/reuse-changed-store/{mode}", "message": f"{desc}; (invocations, queue) {before[st]} -> {after[st]}"})
                    else:
                        if o != "raise":
                            viol.append({"signature": f"C07/{st}/different-args-not-rejected/{mode}", "message": f"{desc}; got {o}"})
                        elif after[st] != before[st]:
                            viol.append({"signature": f"C07/{st}/rejected-changed-store/{mode}", "message": f"{desc}; (invocations, queue) {before[st]} -> {after[st]}"})
                if exp[0] == "new":
                    if all(got[st][0] == "ok" for st in env.apps):
                        minv.append({"args": (a, b, c), "status": "REGISTERED", "ids": {st: got[st][1] for st in env.apps}})
                        if mode == "DISABLED":
                            stats["probe.disabled_always_new"] = stats.get("probe.disabled_always_new", 0) + 1
                        if k in freed_keys:
                            freed_new = True
                            stats["probe.new_after_key_freed"] = stats.get("probe.new_after_key_freed", 0) + 1
                elif exp[0] == "reuse":
                    collapsed = True
                    stats["probe.collapsed"] = stats.get("probe.collapsed", 0) + 1
                else:
                    stats["probe.rejected_different_args"] = stats.get("probe.rejected_different_args", 0) + 1
                trace.append(("submit", a, b, "BIG" if c == BIG else c, exp[0]))
            else:
                i = rng.randrange(len(minv))
                m = minv[i]
                # the invocation leaves REGISTERED and moves on along legal edges, including the available statuses
                # RETRY and REROUTED (re-queued work is not "still REGISTERED": a new submission must not collapse onto it)
                opts_ = {"REGISTERED": ["PENDING"], "PENDING": ["RUNNING", "RUNNING", "KILLED"], "RUNNING": ["SUCCESS", "SUCCESS", "RETRY", "KILLED", "FAILED"], "KILLED": ["REROUTED"], "RETRY": ["PENDING"], "REROUTED": ["PENDING"]}.get(m["status"])
                if not opts_:
                    continue
                nxt = rng.choice(opts_)
                if nxt in ("RETRY", "REROUTED"):
                    stats["probe.moved_to_requeued_status"] = stats.get("probe.moved_to_requeued_status", 0) + 1
                refused = False
                for st, app in env.apps.items():
                    try:
                        app.orchestrator.set_invocation_status(m["ids"][st], InvocationStatus[nxt], ctx)
                    except Exception as e:  # noqa: BLE001
                        # a legal step of the model is refused: the backend's invocation is not where the submissions left it
                        refused = True
                        viol.append({"signature": f"C07/{st}/state-diverged/{mode}", "message": f"step {step}: moving invocation #{i} {m['status']} -> {nxt} was refused ({type(e).__name__}: {str(e)[:160]}): an earlier submission handed out or altered an invocation it should not have"})
                if refused:
                    break
                if m["status"] == "REGISTERED":
                    freed_keys.add(key_of(*m["args"]))
                m["status"] = nxt
                trace.append(("move", i, nxt))
            # invariant: REGISTERED per key, as the backends report it
            if mode != "DISABLED":
                for st, app in env.apps.items():
                    reg = [str(x) for x in app.orchestrator.get_existing_invocations(tasks[st], None, [InvocationStatus.REGISTERED])]
                    want = sorted(m["ids"][st] for m in minv if m["status"] == "REGISTERED")
                    if sorted(reg) != want:
                        viol.append({"signature": f"C07/{st}/registered-set-differs/{mode}", "message": f"step {step}: REGISTERED invocations {len(reg)} vs model {len(want)}"})
                    per_key: dict[tuple, int] = {}
                    for m in minv:
                        if m["status"] == "REGISTERED" and m["ids"][st] in reg:
                            kk = key_of(*m["args"])
                            per_key[kk] = per_key.get(kk, 0) + 1
                    for kk, cnt in per_key.items():
                        if cnt > 1:
                            viol.append({"signature": f"C07/{st}/two-registered-per-key/{mode}", "message": f"step {step}: {cnt} REGISTERED invocations for key {kk}"})
        tr = repr(trace).encode()
        return {
            "violations": viol,
            "stats": stats,
            "steps": len(trace),
            "sim_time": round(sim.now - sim.epoch, 4),
            "sched_hash": hashlib.sha256(tr + mode.encode() + repr(key_args).encode()).hexdigest()[:16],
            "nontrivial": (collapsed and freed_new) or mode == "DISABLED",
            "sample": {"mode": mode, "key_arguments": list(key_args), "raise": raise_opt, "ops": [list(map(str, t)) for t in trace[:14]], "len": len(trace)},
            "digest": hashlib.sha256(tr + repr(sorted(v["signature"] for v in viol)).encode()).hexdigest(),
        }
