"""C05 -- a final status always comes with the matching result or exception.

Engine B: a real ThreadRunner finishes `value(token)` invocations while 1-2
reader actors (own Pynenc objects on SQLite) poll status and results; the
serializer, the externalisation threshold and the status cache are seeded per
run; pre-emption between any two SQL statements (SQLite) or source lines of
the orchestrator / invocation / state backend modules (memory).

Oracle per read:
  * SUCCESS observed through the orchestrator  => the result can be read and
    equals the value the body returned;
  * FAILED  => reading raises an exception of the same type and args;
  * a non-final status never yields a value (InvocationError), i.e. if
    get_final_result returned or raised the stored outcome, the orchestrator
    must already report a final status.
"""

from __future__ import annotations

import copy
import random
from typing import Any

from workloads import simtasks, values
from workloads.deploy import Deployment

PROPERTY = "C05"
LEVEL = "exploration"
ENGINES = ["B"]
TECHNIQUE = "deterministic simulation with seeded schedule search: readers race a finishing worker at SQL-statement / source-line granularity; generated values per serializer domain straddling the externalisation threshold"
LEVEL_TEXT = (
    "A real ThreadRunner executes 1-4 invocations whose bodies return or raise seeded values from the configured serializer's lossless "
    "domain (JSON / pickle / jsonpickle; sizes on both sides of min_size_to_cache). Concurrent reader processes poll status (cached and "
    "uncached) and results under a seeded schedule; every observation is judged: SUCCESS/FAILED seen => matching outcome readable, "
    "non-final => no value. Values and schedules are sampled."
)
LEVEL_NOTE = "Trusted: simkit scheduler and seams, value equality is Python == on values restricted to what each serializer documents as lossless (no tuples / non-str keys for JSON; reserved-prefix strings belong to C15). The body's returned object is compared through a deep copy taken before the run."
MINIMIZE = "schedule"
RULE = (
    "one run = serializer x stack x min_size_to_cache x cached_status_time x 1-4 invocations (values or exceptions, padded to straddle "
    "the threshold) x 1-2 readers under one seeded schedule. Non-trivial = a reader observed a non-final status of an invocation at "
    "least once and its final status later (the reader really raced the worker); distinct = distinct hash of context-switch sites."
)
ASSUMPTIONS = [
    "equality is Python == on values inside the serializer's lossless domain; exception equality is same type and same args",
    "a read that raises KeyError / returns while the orchestrator reports a final status counts against 'SUCCESS comes with its result'",
]
REAL = ["BaseOrchestrator.set_invocation_result/exception", "DistributedInvocation.run/get_final_result/status cache", "Mem/SQLite state backends", "client data stores", "Json/Pickle/JsonPickle serializers", "ThreadRunner loop"]
STUBBED = ["thread / process scheduling", "clock", "uuid4"]
PROBES = ["raced_reader", "externalised_exception", "externalised_result", "inline_result", "failed_outcome", "success_outcome", "nonfinal_refused"]

SERIALIZERS = ["JsonSerializer", "PickleSerializer", "JsonPickleSerializer"]
MEM_TRACE = ["orchestrator/base_orchestrator.py", "orchestrator/mem_orchestrator.py", "invocation/dist_invocation.py", "state_backend/base_state_backend.py", "state_backend/mem_state_backend.py"]


def plan(tier: str) -> list[dict]:
    q = tier == "quick"
    return [
        {"stratum": "mem", "runs": 240 if q else 12000, "params": {"stack": "mem"}, "chunk": 15 if q else 250},
        {"stratum": "sqlite", "runs": 160 if q else 8000, "params": {"stack": "sqlite"}, "chunk": 10 if q else 200},
    ]


def warmup() -> None:
    run(0, {"stack": "mem"})
    run(1, {"stack": "sqlite"})


def run(seed: int, params: dict, replay: dict | None = None) -> dict:
    from pynenc.exceptions import InvocationError
    from pynenc.invocation.status import InvocationStatus

    stack = params["stack"]
    rng = random.Random(f"{seed}:c05")
    serializer = rng.choice(SERIALIZERS)
    dom = values.domain_of(serializer)
    threshold = rng.choice([16, 64, 256, 1024])
    cached = rng.choice([0.0, 0.0, 0.1])
    n_inv = rng.randint(1, 4)
    n_readers = rng.randint(1, 2)
    policy = rng.choice(["rand", "rand", "pct"])
    parg = {"rand": rng.choice([0.15, 0.35]), "pct": rng.choice([1, 2, 3])}[policy]
    outcomes: dict[str, Any] = {}
    for i in range(n_inv):
        tok = f"v{i}"
        if rng.random() < 0.3:
            outcomes[tok] = values.exception(rng, dom, size=rng.choice([None, None, threshold // 2, threshold * 2]))
        else:
            outcomes[tok] = values.value(rng, dom, depth=2, size=rng.choice([None, None, threshold // 2, threshold * 2]))
    expected = {k: copy.deepcopy(v) for k, v in outcomes.items()}
    readers = [f"q{i + 1}" for i in range(n_readers)]
    schedule = replay.get("schedule") if replay else None
    viol: list[dict] = []
    with Deployment(
        seed,
        stack,
        1,
        clients=["c"] + readers,
        policy=policy,
        policy_arg=parg,
        schedule=schedule,
        trace_files=MEM_TRACE if stack == "mem" else None,
        max_steps=200_000,
        max_time=60.0,
        conf={"serializer_cls": serializer, "min_size_to_cache": threshold, "cached_status_time": cached, "max_threads": 2},
    ) as d:
        sim = d.sim
        d.register(simtasks.value)
        simtasks.VALUES.clear()
        simtasks.VALUES.update(outcomes)
        ids: dict[str, str] = {}  # token -> invocation id
        done = {"submitted": False, "stop": False}

        def client() -> None:
            t = d.task("c", "value")
            for tok in outcomes:
                ids[tok] = str(t(tok, rng.choice([0.0, 0.005, 0.02])).invocation_id)
            done["submitted"] = True
            d.wait_final("c", list(ids.values()), timeout=20.0)
            # give the readers time to see the final states
            sim.sleep(0.3)
            done["stop"] = True
            d.stop_runners()

        def bad(kind: str, tok: str, msg: str) -> None:
            o = outcomes[tok]
            what = "exc" if isinstance(o, BaseException) else "value"
            viol.append({"signature": f"C05/{stack}/{kind}/{what}/{serializer}", "message": f"{tok} ({type(o).__name__}): {msg}"})

        def reader_main(name: str) -> Any:
            app = d.app(name)

            def main() -> None:
                while not done["submitted"]:
                    sim.sleep(0.002)
                invs = {tok: app.state_backend.get_invocation(i) for tok, i in ids.items()}
                seen_nonfinal: set[str] = set()
                finished: set[str] = set()
                while len(finished) < len(invs) and not done["stop"]:
                    for tok, inv in invs.items():
                        if tok in finished:
                            continue
                        exp = expected[tok]
                        st = app.orchestrator.get_invocation_status(inv.invocation_id)
                        if not st.is_final():
                            seen_nonfinal.add(tok)
                            # asking now must not yield a value
                            try:
                                got = inv.get_final_result()
                                now = app.orchestrator.get_invocation_status(inv.invocation_id)
                                if not now.is_final():
                                    bad("value-while-not-final", tok, f"get_final_result returned {got!r} while the status is {now.name}")
                            except InvocationError:
                                sim.bump("probe.nonfinal_refused")
                            except BaseException as e:  # noqa: BLE001
                                if type(e).__name__ in ("SimCrash", "SimAbort"):
                                    raise
                                now = app.orchestrator.get_invocation_status(inv.invocation_id)
                                if not now.is_final():
                                    bad("exception-while-not-final", tok, f"get_final_result raised {type(e).__name__}({e.args}) while the status is {now.name}")
                                elif not (isinstance(exp, BaseException) and values.same_exception(e, exp)):
                                    # the status turned final under our feet, but what came out is not the outcome
                                    bad("final-without-outcome", tok, f"get_final_result raised {type(e).__name__}({e.args}) (status now {now.name}): a final status was visible before its outcome")
                            continue
                        finished.add(tok)
                        if tok in seen_nonfinal:
                            sim.bump("probe.raced_reader")
                        if st == InvocationStatus.SUCCESS:
                            sim.bump("probe.success_outcome")
                            if isinstance(exp, BaseException):
                                bad("wrong-final", tok, "SUCCESS although the body raised")
                                continue
                            try:
                                got = app.state_backend.get_result(inv.invocation_id)
                            except BaseException as e:  # noqa: BLE001
                                if type(e).__name__ in ("SimCrash", "SimAbort"):
                                    raise
                                bad("success-without-result", tok, f"SUCCESS observed but reading the result raised {type(e).__name__}: {e}")
                                continue
                            if got != exp:
                                bad("result-differs", tok, f"returned {exp!r}, read back {got!r}")
                            try:
                                got2 = inv.get_final_result()
                                if got2 != exp:
                                    bad("result-differs", tok, f"returned {exp!r}, get_final_result gave {got2!r}")
                            except InvocationError as e:
                                if cached == 0.0:  # with a status cache the object may legitimately still believe "not final"
                                    bad("success-without-result", tok, f"SUCCESS observed but get_final_result raised {type(e).__name__}: {e}")
                            except BaseException as e:  # noqa: BLE001
                                if type(e).__name__ in ("SimCrash", "SimAbort"):
                                    raise
                                bad("success-without-result", tok, f"SUCCESS observed but get_final_result raised {type(e).__name__}: {e}")
                        elif st == InvocationStatus.FAILED:
                            sim.bump("probe.failed_outcome")
                            if not isinstance(exp, BaseException):
                                bad("wrong-final", tok, "FAILED although the body returned")
                                continue
                            try:
                                stored = app.state_backend.get_exception(inv.invocation_id)
                                if not values.same_exception(stored, exp):
                                    bad("exception-differs", tok, f"raised {type(exp).__name__}{exp.args!r}, stored {type(stored).__name__}{stored.args!r}")
                            except BaseException as e:  # noqa: BLE001
                                if type(e).__name__ in ("SimCrash", "SimAbort"):
                                    raise
                                bad("failed-without-exception", tok, f"FAILED observed but reading the exception raised {type(e).__name__}: {e}")
                                continue
                            try:
                                got = inv.get_final_result()
                                bad("failed-without-exception", tok, f"FAILED observed but get_final_result returned {got!r}")
                            except InvocationError as e:
                                if cached == 0.0:
                                    bad("failed-without-exception", tok, f"FAILED observed but get_final_result raised {type(e).__name__}: {e}")
                            except BaseException as e:  # noqa: BLE001
                                if type(e).__name__ in ("SimCrash", "SimAbort"):
                                    raise
                                if not values.same_exception(e, exp):
                                    bad("exception-differs", tok, f"raised {type(exp).__name__}{exp.args!r}, read back {type(e).__name__}{e.args!r}")
                        else:
                            bad("wrong-final", tok, f"unexpected final status {st.name}")
                    sim.sleep(rng.choice([0.0005, 0.002, 0.01]))

            return main

        d.run({"c": client, **{r: reader_main(r) for r in readers}})
        simtasks.VALUES.clear()
        w = d.w
        common = w.result_common()
        st = common["stats"]
        if sim.abort_reason:
            common["inconclusive"] = True
        for n, e in sim.thread_exceptions:
            if n.startswith("q") or n.startswith("c/"):
                viol.append({"signature": f"C05/{stack}/reader-died/{type(e).__name__}", "message": f"{n}: {type(e).__name__}: {e}"})
        # externalised or inline?
        app = d.app("c")
        for tok, inv_id in ids.items():
            try:
                raw = app.state_backend._get_result(inv_id) if not isinstance(expected[tok], BaseException) else None
            except Exception:  # noqa: BLE001
                raw = None
            if isinstance(expected[tok], BaseException):
                try:
                    import json as _json

                    data = _json.loads(app.state_backend._get_exception(inv_id)).get("error_data", "")
                    if isinstance(data, str) and app.client_data_store.is_reference(data):
                        st["probe.externalised_exception"] = st.get("probe.externalised_exception", 0) + 1
                except Exception:  # noqa: BLE001
                    pass
            if raw is not None:
                k = "probe.externalised_result" if app.client_data_store.is_reference(raw) else "probe.inline_result"
                st[k] = st.get(k, 0) + 1
        common.update(
            {
                "violations": viol,
                "nontrivial": st.get("probe.raced_reader", 0) > 0,
                "sample": {"stack": stack, "serializer": serializer, "min_size_to_cache": threshold, "cached_status_time": cached, "readers": n_readers, "policy": [policy, parg], "outcomes": {k: repr(v)[:80] for k, v in expected.items()}},
            }
        )
        return common
