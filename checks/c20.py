"""C20 -- monitoring pages only observe: a GET never changes the system.

Engine A: a seeded operation history builds a system state (queued, running,
finished, failed and retried invocations, a parent/child tree, heartbeats,
trigger conditions, external data, queues longer than the page limit, and --
in some runs -- a partially purged store: queued ids whose records are gone);
then every GET route of the monitor's ASGI application, enumerated at run time
from its OpenAPI schema, is served in-process (single-threaded event loop,
httpx ASGITransport with raise_app_exceptions=False) with generated path and
query parameters (existing, missing and malformed ids; small and large limits).

Oracle: the full read-out of the *monitored* application (queue content and
order, status / owner / retries of every invocation, results, exceptions,
histories, heartbeats, trigger store, external data) is identical before and
after each request, whether the response is 200 or an error.
"""

from __future__ import annotations

import asyncio
import hashlib
from typing import Any

from simkit import apps as apps_mod
from simkit import core, readout
from workloads import simtasks

PROPERTY = "C20"
LEVEL = "exploration"
ENGINES = ["A"]
TECHNIQUE = "deterministic simulation (sequential engine): seeded system states incl. inconsistent stores, every GET route of the real ASGI app served in-process with generated parameters; oracle = full read-out unchanged"
LEVEL_TEXT = (
    "The state is produced by a seeded history through the public API (submissions, polls, runs, failures, retries, waits, heartbeats, "
    "events, external data, optional purge of the state backend that leaves queued ids without records); all GET routes registered by the "
    "monitor are requested with existing / missing / malformed path parameters and small / large limits; after each request the complete "
    "read-out of the monitored app is compared with the one taken before. Histories and parameters are sampled; the route table is covered completely in every run."
)
LEVEL_NOTE = "Trusted: simkit.readout.snapshot as 'everything observable' (monitor-side selection and caches are not part of the monitored system), httpx ASGI transport, the OpenAPI schema as the route table."
MINIMIZE = None
RULE = (
    "one run = stack x history (6-14 invocations, queue length 3-9) x partial-purge (+ activity after the purge) / aged-by-25h / duplicate-queue-entry / monitor-as-second-app-object (SQLite) flags x all GET routes (34 at this commit) x 1-3 parameter "
    "choices each; non-trivial = the queue was longer than the requested page limit or the store was partially purged; distinct = hash of history + requests."
)
ASSUMPTIONS = [
    "a GET may change what belongs to the monitor itself (selected app, caches, logs); only the monitored system's read-out is compared",
    "requests are served one at a time while the monitored system is quiescent",
]
REAL = ["pynmon FastAPI application and all views", "pynmon.util family tree / timeline builders", "both backend families"]
STUBBED = ["HTTP transport (in-process ASGI)", "clock", "uuid4"]
PROBES = ["routes_requested", "queue_longer_than_limit", "partially_purged_store", "duplicate_queue_entry", "aged_final_invocations", "activity_after_purge", "monitor_in_its_own_process", "http_200", "http_4xx", "http_5xx"]

_ROUTES: list[tuple[str, list[dict]]] | None = None


def plan(tier: str) -> list[dict]:
    q = tier == "quick"
    return [
        {"stratum": "mem", "runs": 48 if q else 2500, "params": {"stack": "mem"}, "chunk": 3 if q else 60},
        {"stratum": "sqlite", "runs": 32 if q else 1500, "params": {"stack": "sqlite"}, "chunk": 2 if q else 40},
    ]


WALL_CAP = {"quick": 200, "thorough": 2400}


def warmup() -> None:
    run(0, {"stack": "mem"})


def routes() -> list[tuple[str, list[dict]]]:
    global _ROUTES
    if _ROUTES is None:
        import pynmon.app as pa

        pa.setup_routes()
        spec = pa.app.openapi()
        out = []
        for path, methods in sorted(spec["paths"].items()):
            if "get" in methods:
                out.append((path, methods["get"].get("parameters", [])))
        _ROUTES = out
    return _ROUTES


def run(seed: int, params: dict, replay: dict | None = None) -> dict:
    import httpx
    import pynmon.app as pa
    from pynenc.runner.runner_context import RunnerContext
    from pynenc.trigger.trigger_builder import on_event

    stack = params["stack"]
    viol: list[dict] = []
    stats: dict[str, int] = {}

    def bump(k: str, n: int = 1) -> None:
        stats[k] = stats.get(k, 0) + n

    sim = core.Sim(seed, threaded=False, delta=0.0)
    core.activate(sim)
    apps_mod.reset_thread_context()
    db = apps_mod.fresh_db() if stack == "sqlite" else None
    app = None
    try:
        rng = sim.rng_work
        app = apps_mod.make_app(stack, app_id="monitored", db_path=db, min_size_to_cache=64)
        apps_mod.instantiate_all(app)
        t_tree = apps_mod.register(app, simtasks.tree, triggers=on_event("evt"))
        t_prog = apps_mod.register(app, simtasks.prog, max_retries=1)
        app.register_deferred_triggers()
        simtasks.reset()
        ctx = RunnerContext(runner_cls="SimRunner", runner_id="r1")
        app.orchestrator.register_runner_heartbeats(["r1"], can_run_atomic_service=True)
        app.state_backend.store_runner_context(ctx)
        inv_ids: list[str] = []
        keys: list[str] = []
        # ---- history ---------------------------------------------------
        n_sub = rng.randint(6, 14)
        for i in range(n_sub):
            sim.advance(0.01)
            if rng.random() < 0.5:
                inv = t_prog({"n": f"p{i}", "v": i, "fail": rng.choice([[], [], [1], [1, 2]]), "exc": rng.choice(["retry", "sim"])})
            else:
                inv = t_tree({"v": i})
            inv_ids.append(str(inv.invocation_id))
        n_run = rng.randint(0, max(0, n_sub - 3))
        for _ in range(n_run):
            sim.advance(0.01)
            for inv in list(app.orchestrator.get_invocations_to_run(1, ctx)):
                try:
                    inv.run(ctx)
                except Exception:  # noqa: BLE001  scripted failures
                    pass
        if rng.random() < 0.5 and len(inv_ids) >= 2:
            app.orchestrator.waiting_for_results(inv_ids[0], [inv_ids[-1]])
        if rng.random() < 0.45:
            # the same id can sit in the queue more than once (claimed through the blocking path without consuming
            # its message, then re-queued by a retry / reroute): a legitimate state the pages must leave alone
            q_now = readout.peek_queue(app)
            for _ in range(rng.randint(1, 2)):
                if q_now:
                    app.broker.route_invocation(rng.choice(q_now[:3]))
                    bump("probe.duplicate_queue_entry")
        app.trigger.emit_event("evt", {"x": 1})
        keys.append(app.client_data_store.serialize("K" * 200))
        partial = rng.random() < 0.4
        if partial:
            # the state backend lost its records, the queue still names them
            app.state_backend.purge()
            bump("probe.partially_purged_store")
            if rng.random() < 0.6:
                # the application keeps working after the purge: its process still remembers which runner contexts it
                # stored (the rows are gone), so the new history entries name runners without a stored context
                for i in range(rng.randint(1, 3)):
                    sim.advance(0.01)
                    inv_ids.append(str(t_tree({"v": 100 + i}).invocation_id))
                for _ in range(rng.randint(0, 2)):
                    try:
                        for inv in list(app.orchestrator.get_invocations_to_run(1, ctx)):
                            inv.run(ctx)
                    except Exception:  # noqa: BLE001  (a queued id whose record was purged, or a scripted failure)
                        pass
                app.state_backend.wait_for_all_async_operations() if hasattr(app.state_backend, "wait_for_all_async_operations") else None
                bump("probe.activity_after_purge")
        aged = rng.random() < 0.35
        if aged:
            # a day later: final invocations are older than auto_final_invocation_purge_hours (a view must still not purge them)
            sim.advance(25 * 3600.0)
            bump("probe.aged_final_invocations")
        known = sorted({e for e in inv_ids} | {str(x) for x in app.orchestrator.get_invocation_ids_paginated(limit=200)})
        qlen = app.broker.count_invocations()
        # ---- requests --------------------------------------------------
        served = app
        if stack == "sqlite" and rng.random() < 0.5:
            # the monitor as its own process: a second application object on the same database (empty caches)
            served = apps_mod.make_app(stack, app_id="monitored", db_path=db, min_size_to_cache=64)
            apps_mod.instantiate_all(served)
            apps_mod.register(served, simtasks.tree, triggers=on_event("evt"))
            apps_mod.register(served, simtasks.prog, max_retries=1)
            served.register_deferred_triggers()
            bump("probe.monitor_in_its_own_process")
        pa.all_pynenc_instances = {served.app_id: served}
        pa.pynenc_instance = served

        def snap() -> dict:
            s_ = readout.snapshot(app, known, keys, runner_ids=["r1"])
            if stack == "sqlite":
                s_["tables"] = readout.exact_table_counts(db, readout.own_tables(app))  # type: ignore[arg-type]
            return s_
        reqs: list[str] = []

        def values_for(name: str) -> list[str]:
            task_key = t_prog.task_id.key
            if name == "invocation_id":
                return [rng.choice(known) if known else "none", "00000000-0000-4000-8000-000000000000", "not-a-uuid"]
            if name in ("task_id_key", "workflow_type_key"):
                return [task_key, "missing.module.func", "%%%"]
            if name == "call_id_key":
                try:
                    ck = app.state_backend.get_invocation(known[0]).call.call_id.key if known else "x"
                except Exception:  # noqa: BLE001
                    ck = "x"
                return [ck, "missing"]
            if name == "runner_id":
                return ["r1", "nobody"]
            if name == "app_id":
                return ["monitored", "other-app"]
            return ["x"]

        for path, params_ in routes():
            pnames = [p["name"] for p in params_ if p["in"] == "path"]
            qnames = [p["name"] for p in params_ if p["in"] == "query"]
            variants = [path]
            for pn in pnames:
                variants = [v.replace("{" + pn + "}", val) for v in variants for val in rng.sample(values_for(pn), k=min(2, len(values_for(pn))))]
            for v in variants:
                qs = []
                if "limit" in qnames:
                    lim = rng.choice([1, 2, 3, 1000])
                    qs.append(f"limit={lim}")
                    if path.endswith("/queue") and lim < qlen:
                        bump("probe.queue_longer_than_limit")
                if "status" in qnames and rng.random() < 0.5:
                    qs.append("status=" + rng.choice(["SUCCESS", "registered", "bogus"]))
                if "task_id" in qnames and rng.random() < 0.4:
                    qs.append("task_id=" + t_prog.task_id.key)
                if "page" in qnames and rng.random() < 0.4:
                    qs.append("page=" + str(rng.choice([1, 2, 99])))
                if "time_range" in qnames and rng.random() < 0.6:
                    qs.append("time_range=" + rng.choice(["1h", "15m", "bogus"]))
                if "log" in qnames and rng.random() < 0.5 and known:
                    qs.append("log=" + f"invocation:{known[0]} runner:r1")
                reqs.append(v + ("?" + "&".join(qs) if qs else ""))

        async def serve() -> None:
            transport = httpx.ASGITransport(app=pa.app, raise_app_exceptions=False)
            async with httpx.AsyncClient(transport=transport, base_url="http://testserver", follow_redirects=False) as client:
                before = snap()
                for url in reqs:
                    bump("probe.routes_requested")
                    try:
                        resp = await client.get(url)
                        code = resp.status_code
                    except Exception as e:  # noqa: BLE001
                        code = -1
                        viol.append({"signature": f"C20/{stack}/transport-error/{type(e).__name__}", "message": f"GET {url}: {type(e).__name__}: {e}"})
                    bump("probe.http_200" if code == 200 else ("probe.http_5xx" if code >= 500 else "probe.http_4xx"))
                    after = snap()
                    d = readout.diff(before, after)
                    if d:
                        route = url.split("?")[0]
                        for k_ in known:
                            route = route.replace(k_, "{id}")
                        what = d[0].split("/")[1].split(":")[0]
                        if what == "queue":
                            qb, qa = before["queue"], after["queue"]
                            what = "queue-lost" if sorted(qa) != sorted(qb) else "queue-reordered"
                        viol.append({"signature": f"C20/{stack}/{what}/GET {route}/http={code}/partial={int(partial)}/aged={int(aged)}", "message": f"GET {url} (HTTP {code}) changed the monitored system: {d[:4]}"})
                        before = after  # keep comparing later requests against the new state
                    if pa.pynenc_instance is not served:
                        pa.pynenc_instance = served

        asyncio.run(serve())
        tr = repr(reqs).encode()
        return {
            "violations": viol,
            "stats": stats,
            "steps": len(reqs),
            "sim_time": round(sim.now - sim.epoch, 4),
            "sched_hash": hashlib.sha256(tr + str(seed).encode()).hexdigest()[:16],
            "nontrivial": bool(stats.get("probe.queue_longer_than_limit") or partial),
            "sample": {"stack": stack, "submitted": n_sub, "ran": n_run, "queue_len": qlen, "partially_purged": partial, "aged_a_day": aged, "requests": reqs[:10], "n_requests": len(reqs)},
            "digest": hashlib.sha256(tr + repr(sorted(v["signature"] for v in viol)).encode()).hexdigest(),
        }
    finally:
        try:
            import pynmon.app as pa2

            pa2.all_pynenc_instances = {}
            pa2.pynenc_instance = None
        except Exception:  # noqa: BLE001
            pass
        core.deactivate()
        app = None
        import gc

        gc.collect()
        if db:
            apps_mod.remove_db(db)
