"""C13 -- a satisfied trigger condition launches its task exactly once.

Strata:
  events-seq   engine A, both trigger stores: small trigger configurations
               (single condition with the default logic, OR of two conditions,
               AND of two conditions) over event and status conditions; several
               occurrences (each carrying a unique token that the argument
               provider forwards) pending together; loop iterations
  events-conc  engine B: two simulated processes run trigger_loop_iteration at
               the same time while a reporter emits events; pre-emption at SQL
               statements (SQLite) / source lines (memory)
  cron-seq     engine A: cron expressions from a generated family (steps,
               lists, ranges, wildcards in minute and hour), poll-time
               sequences (regular, jittered, bursty, with gaps) through
               check_time_based_triggers on both stores, against an independent
               brute-force schedule evaluator
  cron-conc    engine B: two pollers call check_time_based_triggers for the same
               scheduled minute concurrently

Oracle: per occurrence and dependent trigger (single condition or OR): one
launch once a full iteration ran after it was recorded, never two, with that
occurrence's arguments; AND: launch iff an occurrence of every condition is
pending, then consumed; cron: one occurrence at the first poll inside the check
window after a scheduled minute with the previous firing at least the minimum
interval old, at most one per scheduled minute, none outside a window.
"""

from __future__ import annotations

import hashlib
import random
from datetime import UTC, datetime, timedelta
from typing import Any

from simkit.seq import SeqEnv
from simkit.world import World
from workloads import simtasks

PROPERTY = "C13"
LEVEL = "exploration"
ENGINES = ["A", "B"]
TECHNIQUE = "deterministic simulation: token-carrying occurrence histories on both trigger stores, seeded SQL-statement / source-line interleavings of two concurrent trigger loops and cron pollers, virtual-clock poll sequences against a brute-force cron evaluator"
LEVEL_TEXT = (
    "Occurrences carry unique tokens that the argument provider forwards, so every launch is attributable. Sequential strata drive the real "
    "trigger stores through emit_event / status reports / trigger_loop_iteration and through check_time_based_triggers with the simulated "
    "clock; concurrent strata run two trigger loops (or two cron pollers) of different simulated processes under a seeded schedule. Launch "
    "counts and arguments per occurrence, AND consumption and the cron rule are judged. Configurations, histories, poll sequences and schedules are sampled."
)
LEVEL_NOTE = "Trusted: token attribution through the launched invocations' arguments, the brute-force cron matcher (minute/hour fields with steps, lists, ranges, wildcards; croniter is not used by the oracle), simkit scheduler and clock. Under concurrency only 'never twice' and 'not lost after both loops and one further iteration finished' are required."
MINIMIZE = "schedule"
RULE = (
    "events: 1-4 pending occurrences x logic in {single, OR, AND}; cron: expression from the generated family x 20-60 polls with "
    "regular / jittered / bursty / gapped spacing; concurrent: two loops / pollers + a reporter (0-6 live reports spread over the loops or released inside a store method) under rand / pct / rr. Non-trivial = >= 2 "
    "occurrences were pending together (events) / at least one poll fell inside and one outside a window (cron) / a context switch landed "
    "inside a loop iteration (conc); distinct = hash of history or switch sites."
)
ASSUMPTIONS = [
    "'once a loop iteration has run' = an iteration that started after the occurrence was recorded and ran to its end",
    "cron: day-of-month, month and day-of-week are '*' in the generated family",
]
REAL = ["BaseTrigger (loop, cron check, claims, execute_task)", "Mem/SQLite trigger stores", "TriggerDefinition run ids", "conditions (event, status, cron)", "argument providers", "orchestrator route_call"]
STUBBED = ["clock", "thread / process scheduling", "uuid4"]
PROBES = ["several_pending_together", "and_trigger_fired", "or_trigger_fired", "claim_lost", "cron_first_fire", "cron_inside_window", "cron_outside_window", "cron_min_interval_block", "concurrent_switch_in_loop", "report_released_inside_store_method"]


def plan(tier: str) -> list[dict]:
    q = tier == "quick"
    return [
        {"stratum": "events-seq", "runs": 128 if q else 6000, "params": {"mode": "events"}, "chunk": 8 if q else 150},
        {"stratum": "events-conc-sqlite", "runs": 160 if q else 8000, "params": {"mode": "conc", "stack": "sqlite"}, "chunk": 10 if q else 200},
        {"stratum": "events-conc-mem", "runs": 400 if q else 12000, "params": {"mode": "conc", "stack": "mem"}, "chunk": 25 if q else 300},
        {"stratum": "cron-seq", "runs": 96 if q else 5000, "params": {"mode": "cron"}, "chunk": 6 if q else 125},
        {"stratum": "cron-conc-sqlite", "runs": 160 if q else 8000, "params": {"mode": "cronconc", "stack": "sqlite"}, "chunk": 10 if q else 200},
        {"stratum": "cron-conc-mem", "runs": 96 if q else 5000, "params": {"mode": "cronconc", "stack": "mem"}, "chunk": 6 if q else 125},
    ]


def warmup() -> None:
    run(0, {"mode": "events"})
    run(0, {"mode": "conc", "stack": "sqlite"})
    run(0, {"mode": "cron"})


def run(seed: int, params: dict, replay: dict | None = None) -> dict:
    m = params["mode"]
    if m == "events":
        return _run_events(seed)
    if m == "conc":
        return _run_conc(seed, params["stack"], replay)
    if m == "cron":
        return _run_cron(seed)
    return _run_cronconc(seed, params["stack"], replay)


# ----------------------------------------------------------------------------- helpers
def _setup_triggers(app: Any, logic: str) -> dict[str, Any]:
    """target task `add` is triggered; returns the tasks."""
    from simkit import apps as _apps
    from pynenc.trigger.trigger_builder import TriggerBuilder

    src = _apps.register(app, simtasks.source)
    if logic == "single":
        tb = TriggerBuilder().on_event("e1").with_args_from_event(simtasks.args_from_event)
    elif logic == "or":
        tb = TriggerBuilder().on_event("e1").on_event("e2").with_logic("or").with_args_from_event(simtasks.args_from_event)
    else:
        tb = TriggerBuilder().on_event("e1").on_event("e2").with_logic("and").with_args_from_event(simtasks.args_from_event)
    tgt = _apps.register(app, simtasks.add, triggers=tb)
    app.register_deferred_triggers()
    return {"src": src, "tgt": tgt}


def _launches(app: Any, tgt: Any) -> list[Any]:
    out = []
    for inv_id in app.orchestrator.get_task_invocation_ids(tgt.task_id):
        kw = app.state_backend.get_invocation(inv_id).arguments.kwargs
        out.append(kw.get("x"))
    return out


# ----------------------------------------------------------------------------- events, sequential
def _run_events(seed: int) -> dict:
    viol: list[dict] = []
    stats: dict[str, int] = {}
    trace: list = []
    with SeqEnv(seed) as env:
        sim = env.sim
        rng = sim.rng_work
        logic = rng.choice(["single", "single", "or", "and"])
        tasks = {st: _setup_triggers(app, logic) for st, app in env.apps.items()}
        tok = 0
        pending: dict[str, list[int]] = {"e1": [], "e2": []}  # model: occurrences not yet consumed
        expected: list[int] = []  # tokens that must have produced exactly one launch so far
        several = False
        for rnd in range(rng.randint(2, 5)):
            k = rng.randint(1, 4)
            for _ in range(k):
                tok += 1
                code = "e1" if logic == "single" else rng.choice(["e1", "e2"])
                sim.advance(0.01)
                for app in env.apps.values():
                    app.trigger.emit_event(code, {"tok": tok})
                pending[code].append(tok)
                trace.append(("emit", code, tok))
            if sum(len(v) for v in pending.values()) >= 2:
                several = True
                stats["probe.several_pending_together"] = stats.get("probe.several_pending_together", 0) + 1
            iters = rng.randint(1, 2)
            for _ in range(iters):
                sim.advance(0.5)
                for app in env.apps.values():
                    app.trigger.trigger_loop_iteration()
            trace.append(("loop", iters))
            if logic in ("single", "or"):
                for code in ("e1", "e2"):
                    expected.extend(pending[code])
                    pending[code] = []
                if logic == "or" and expected:
                    stats["probe.or_trigger_fired"] = 1
            else:
                # AND: fires iff an occurrence of every condition is pending, then consumes them
                if pending["e1"] and pending["e2"]:
                    stats["probe.and_trigger_fired"] = 1
                    fired = {"e1": list(pending["e1"]), "e2": list(pending["e2"])}
                    pending = {"e1": [], "e2": []}
                    trace.append(("and-fired", fired))
                    expected.append(("AND", tuple(fired["e1"]), tuple(fired["e2"])))  # type: ignore[arg-type]
            for st, app in env.apps.items():
                got = _launches(app, tasks[st]["tgt"])
                if logic in ("single", "or"):
                    for t_ in expected:
                        c = got.count(t_)
                        if c != 1:
                            kind = "lost" if c == 0 else "twice"
                            viol.append({"signature": f"C13/events/{st}/{kind}/logic={logic}/pending={'several' if several else 'one'}", "message": f"occurrence token {t_} produced {c} launches (expected exactly 1); launches carry tokens {sorted(map(str, got))}; expected so far {expected}; logic={logic}; history {trace[-8:]}"})
                            break
                    extra = [g for g in got if g not in expected]
                    if extra:
                        viol.append({"signature": f"C13/events/{st}/unattributable-launch/logic={logic}", "message": f"launches with tokens {extra} match no occurrence that should have fired (expected {expected}); history {trace[-8:]}"})
                else:
                    n_and = sum(1 for e in expected if isinstance(e, tuple))
                    if len(got) != n_and:
                        viol.append({"signature": f"C13/events/{st}/and-launch-count/{'more' if len(got) > n_and else 'fewer'}", "message": f"AND trigger launched {len(got)} times, model {n_and}; pending now {pending}; history {trace[-8:]}"})
                    left = len(app.trigger.get_valid_conditions())
                    want_left = len(pending["e1"]) + len(pending["e2"])
                    if left != want_left:
                        viol.append({"signature": f"C13/events/{st}/and-consumption/{'leftover' if left > want_left else 'overconsumed'}", "message": f"{left} valid conditions pending after the loop, model {want_left} ({pending}); history {trace[-8:]}"})
        tr = repr((logic, trace)).encode()
        return {
            "violations": viol,
            "stats": stats,
            "steps": len(trace),
            "sim_time": round(sim.now - sim.epoch, 4),
            "sched_hash": hashlib.sha256(tr).hexdigest()[:16],
            "nontrivial": several,
            "sample": {"logic": logic, "history": [list(map(str, t)) for t in trace[:12]]},
            "digest": hashlib.sha256(tr + repr(sorted(v["signature"] for v in viol)).encode()).hexdigest(),
        }


# ----------------------------------------------------------------------------- events, concurrent loops
TRIG_TRACE = ["trigger/base_trigger.py", "trigger/mem_trigger.py", "orchestrator/base_orchestrator.py", "orchestrator/mem_orchestrator.py"]


def _run_conc(seed: int, stack: str, replay: dict | None) -> dict:
    rng = random.Random(f"{seed}:c13")
    policy = rng.choice(["rand", "rand", "pct", "rr"])
    parg = {"rand": rng.choice([0.2, 0.4]), "pct": rng.choice([1, 2, 3]), "rr": rng.choice([1, 2, 5])}[policy]
    logic = rng.choice(["single", "or"])
    n_pre = rng.randint(1, 2)
    n_live = rng.choice([0, 1, 2, 2, 4, 6])
    # where the live reports land: at seeded offsets over the whole duration of the loops, or (fault placement)
    # released by a hook while a loop thread is inside one of the store's valid-condition / claim methods
    placed = rng.random() < 0.5
    place_fn = rng.choice(["clear_valid_conditions", "get_valid_conditions", "claim_trigger_run", "clear_valid_conditions"])
    place_line = rng.randint(1, 5)
    schedule = replay.get("schedule") if replay else None
    viol: list[dict] = []
    with World(seed, stack, ["a", "b", "rep"], policy=policy, policy_arg=parg, schedule=schedule, trace_files=TRIG_TRACE if stack == "mem" else None, max_steps=60000) as w:
        sim = w.sim
        tk = {}
        done_apps = []
        for name, app in w.apps.items():
            if not any(app is x for x in done_apps):
                done_apps.append(app)
                tk[id(app)] = _setup_triggers(app, logic)
        rep_app = w.apps["rep"]
        tokens: list[int] = []
        for i in range(n_pre):
            tokens.append(i + 1)
            rep_app.trigger.emit_event("e1", {"tok": i + 1})

        def loop_main(name: str) -> Any:
            app = w.apps[name]

            def main() -> None:
                for _ in range(rng.randint(1, 2)):
                    sw0 = len(sim.switch_sites)
                    app.trigger.trigger_loop_iteration()
                    if len(sim.switch_sites) > sw0:
                        sim.bump("probe.concurrent_switch_in_loop")

            return main

        from simkit.core import SimEvent

        gates: list[Any] = []
        place = {"n": 0}

        def hook(th: Any, kind_: str, detail: Any) -> None:
            if not gates or th.actor.name == "rep":
                return
            hit = (kind_ == "line" and detail[0] == place_fn) or (kind_ == "sql" and place_fn.split("_")[0] in ("clear", "claim") and "trg_" in str(detail))
            if hit:
                place["n"] += 1
                if place["n"] >= place_line:
                    place["n"] = 0
                    sim.bump("probe.report_released_inside_store_method")
                    gates.pop(0).set()

        if placed and n_live:
            sim.fault_hook = hook

        def reporter() -> None:
            for j in range(n_live):
                if placed:
                    ev = SimEvent()
                    gates.append(ev)
                    ev.wait(0.05)
                else:
                    sim.sleep(rng.choice([0.0, 0.0005, 0.002, 0.005, 0.01, 0.02, 0.03]))
                t_ = 100 + j
                tokens.append(t_)
                rep_app.trigger.emit_event("e1" if logic == "single" else rng.choice(["e1", "e2"]), {"tok": t_})

        w.run([("a", "main", loop_main("a")), ("b", "main", loop_main("b")), ("rep", "main", reporter)])
        common = w.result_common()
        st = common["stats"]
        if sim.abort_reason:
            common["inconclusive"] = True
        else:
            # one further full iteration after everything finished (sequential)
            a_app = w.apps["a"]
            a_app.trigger.trigger_loop_iteration()
            got = _launches(a_app, tk[id(a_app)]["tgt"])
            for t_ in tokens:
                c = got.count(t_)
                if c > 1:
                    viol.append({"signature": f"C13/conc/{stack}/launched-twice/logic={logic}", "message": f"occurrence token {t_} launched the task {c} times with two trigger loops running concurrently; all launch tokens {sorted(map(str, got))}"})
                elif c == 0:
                    viol.append({"signature": f"C13/conc/{stack}/lost/logic={logic}", "message": f"occurrence token {t_} never launched the task although both loops and one further iteration finished; all launch tokens {sorted(map(str, got))}; pending valid conditions {len(a_app.trigger.get_valid_conditions())}"})
            st["probe.claim_lost"] = sum(1 for e in sim.log if e[2] == "sql" and False)
        common.update(
            {
                "violations": viol,
                "nontrivial": st.get("probe.concurrent_switch_in_loop", 0) > 0,
                "sample": {"stack": stack, "logic": logic, "policy": [policy, parg], "pre_recorded": n_pre, "emitted_during": n_live, "tokens": tokens},
            }
        )
        return common


# ----------------------------------------------------------------------------- cron
def _field(rng: random.Random, lo: int, hi: int) -> str:
    r = rng.random()
    if r < 0.3:
        return "*"
    if r < 0.5:
        return f"*/{rng.choice([2, 3, 5, 7, 10, 15, 20, 30]) if hi > 30 else rng.choice([2, 3, 4, 6, 8, 12])}"
    if r < 0.65:
        a = rng.randint(lo, hi - 1)
        return f"{a}-{rng.randint(a + 1, hi)}"
    if r < 0.8:
        return ",".join(str(x) for x in sorted(rng.sample(range(lo, hi + 1), rng.randint(1, 3))))
    if r < 0.9:
        a = rng.randint(lo, hi - 1)
        return f"{a}-{rng.randint(a + 1, hi)}/{rng.choice([2, 3, 5])}"
    return str(rng.randint(lo, hi))


def _match_field(expr: str, v: int, lo: int, hi: int) -> bool:
    for part in expr.split(","):
        step = 1
        if "/" in part:
            part, s = part.split("/")
            step = int(s)
        if part == "*":
            a, b = lo, hi
        elif "-" in part:
            a, b = (int(x) for x in part.split("-"))
        else:
            a = int(part)
            b = hi if step != 1 else a
        if a <= v <= b and (v - a) % step == 0:
            return True
    return False


def scheduled(expr: str, dt: datetime) -> bool:
    minute, hour = expr.split()[:2]
    return _match_field(minute, dt.minute, 0, 59) and _match_field(hour, dt.hour, 0, 23)


def prev_scheduled(expr: str, t: datetime) -> datetime | None:
    """latest scheduled minute <= t (brute force, at most 2 days back)."""
    m = t.replace(second=0, microsecond=0)
    for _ in range(2 * 24 * 60):
        if scheduled(expr, m):
            return m
        m -= timedelta(minutes=1)
    return None


def next_scheduled_after(expr: str, t: datetime) -> datetime | None:
    m = t.replace(second=0, microsecond=0) + timedelta(minutes=1)
    for _ in range(2 * 24 * 60):
        if scheduled(expr, m):
            return m
        m += timedelta(minutes=1)
    return None


def _cron_app_setup(app: Any, expr: str) -> Any:
    from simkit import apps as _apps
    from pynenc.trigger.trigger_builder import on_cron

    t = _apps.register(app, simtasks.add, triggers=on_cron(expr).with_args_static({"x": 0, "y": 0}))
    app.register_deferred_triggers()
    return t


def _run_cron(seed: int) -> dict:
    viol: list[dict] = []
    stats: dict[str, int] = {}
    trace: list = []
    with SeqEnv(seed) as env:
        sim = env.sim
        rng = sim.rng_work
        expr = f"{_field(rng, 0, 59)} {_field(rng, 0, 23)} * * *"
        if rng.random() < 0.4:
            expr = f"{_field(rng, 0, 59)} * * * *"
        for app in env.apps.values():
            _cron_app_setup(app, expr)
        cid = f"cron_{expr}"
        WINDOW, MIN_INT = 60.0, 50.0
        # start shortly before a scheduled minute
        t0 = datetime.fromtimestamp(int(sim.now) - int(sim.now) % 60, UTC)
        first = next_scheduled_after(expr, t0)
        if first is None:
            return {"violations": [], "stats": {}, "steps": 0, "sched_hash": "never", "nontrivial": False, "sample": {"expr": expr, "note": "never scheduled within two days"}, "digest": "never"}
        sim.now = first.timestamp() - rng.choice([0.5, 5.0, 61.0, 200.0])
        style = rng.choice(["regular", "jitter", "bursty", "gaps"])
        last_exec: datetime | None = None
        fired_minutes: dict[str, list[datetime]] = {st: [] for st in env.apps}
        inside = outside = False
        for _ in range(rng.randint(20, 60)):
            if style == "regular":
                sim.advance(rng.choice([10.0, 30.0, 60.0]))
            elif style == "jitter":
                sim.advance(rng.uniform(1.0, 90.0))
            elif style == "bursty":
                sim.advance(rng.choice([0.01, 0.5, 2.0, 120.0]))
            else:
                nxt = next_scheduled_after(expr, datetime.fromtimestamp(sim.now, UTC))
                if nxt is not None and rng.random() < 0.5:
                    sim.now = nxt.timestamp() + rng.choice([-1.0, 0.0, 1.0, 30.0, 59.0, 60.0, 60.5, 75.0])
                else:
                    sim.advance(rng.uniform(30.0, 4000.0))
            now_f = float(int(sim.now * 1000)) / 1000.0
            t = datetime.fromtimestamp(now_f, UTC)
            # model
            prev = prev_scheduled(expr, t)
            in_window = prev is not None and 0.0 <= (t - prev).total_seconds() <= WINDOW
            ok = in_window
            if ok and last_exec is not None:
                if (t - last_exec).total_seconds() < MIN_INT:
                    ok = False
                    stats["probe.cron_min_interval_block"] = stats.get("probe.cron_min_interval_block", 0) + 1
                else:
                    na = next_scheduled_after(expr, last_exec)
                    if na is None or t < na:
                        ok = False
            if in_window:
                inside = True
                stats["probe.cron_inside_window"] = stats.get("probe.cron_inside_window", 0) + 1
            else:
                outside = True
                stats["probe.cron_outside_window"] = stats.get("probe.cron_outside_window", 0) + 1
            if ok and last_exec is None:
                stats["probe.cron_first_fire"] = 1
            for st, app in env.apps.items():
                before = len(app.trigger.get_valid_conditions())
                app.trigger.check_time_based_triggers(t)
                after = len(app.trigger.get_valid_conditions())
                fired = after > before
                if fired:
                    fired_minutes[st].append(prev if prev else t)
                    # consume (as the loop would after launching)
                    app.trigger.clear_valid_conditions(list(app.trigger.get_valid_conditions().values()))
                if fired != ok:
                    kind = "fired-unexpectedly" if fired else "missed"
                    where = "outside-window" if not in_window else "inside-window"
                    viol.append({"signature": f"C13/cron/{st}/{kind}/{where}", "message": f"expr '{expr}' poll at {t.isoformat()} (latest scheduled minute {prev}, {(t - prev).total_seconds() if prev else None}s ago; last firing {last_exec}): store fired={fired}, rule says {ok}"})
            if ok:
                last_exec = t
            trace.append((round(now_f - sim.epoch, 3), ok))
        for st, mins in fired_minutes.items():
            if len(mins) != len(set(mins)):
                viol.append({"signature": f"C13/cron/{st}/two-occurrences-for-one-minute", "message": f"expr '{expr}': scheduled minutes with more than one occurrence: {[m for m in set(mins) if mins.count(m) > 1]}"})
        tr = repr((expr, style, trace)).encode()
        return {
            "violations": viol,
            "stats": stats,
            "steps": len(trace),
            "sim_time": round(sim.now - sim.epoch, 1),
            "sched_hash": hashlib.sha256(tr).hexdigest()[:16],
            "nontrivial": inside and outside,
            "sample": {"expr": expr, "style": style, "polls": trace[:12], "fired": sum(1 for _, f in trace if f)},
            "digest": hashlib.sha256(tr + repr(sorted(v["signature"] for v in viol)).encode()).hexdigest(),
        }


def _run_cronconc(seed: int, stack: str, replay: dict | None) -> dict:
    rng = random.Random(f"{seed}:c13cron")
    policy = rng.choice(["rand", "rand", "pct", "rr"])
    parg = {"rand": rng.choice([0.2, 0.4]), "pct": rng.choice([1, 2, 3]), "rr": rng.choice([1, 2, 3])}[policy]
    expr = rng.choice(["* * * * *", "*/2 * * * *", "*/5 * * * *"])
    first_fire = rng.random() < 0.5
    schedule = replay.get("schedule") if replay else None
    viol: list[dict] = []
    with World(seed, stack, ["a", "b"], policy=policy, policy_arg=parg, schedule=schedule, trace_files=TRIG_TRACE if stack == "mem" else None, max_steps=40000) as w:
        sim = w.sim
        done = []
        for app in w.apps.values():
            if not any(app is x for x in done):
                done.append(app)
                _cron_app_setup(app, expr)
        # place the clock a few seconds after a scheduled minute
        base = datetime.fromtimestamp(int(sim.now) - int(sim.now) % 60, UTC)
        m = next_scheduled_after(expr, base)
        assert m is not None
        a_app = w.apps["a"]
        if not first_fire:
            # a previous firing exists: fire once sequentially one period earlier
            prev_t = m - timedelta(minutes=int(expr.split("/")[1].split()[0]) if "/" in expr else 1)
            a_app.trigger.check_time_based_triggers(prev_t + timedelta(seconds=1))
            a_app.trigger.clear_valid_conditions(list(a_app.trigger.get_valid_conditions().values()))
        sim.now = m.timestamp() + rng.choice([0.5, 3.0, 20.0])
        t_poll = datetime.fromtimestamp(sim.now, UTC)

        def poll(name: str) -> Any:
            app = w.apps[name]

            def main() -> None:
                app.trigger.check_time_based_triggers(t_poll + timedelta(milliseconds=1 if name == "b" else 0))

            return main

        w.run([("a", "main", poll("a")), ("b", "main", poll("b"))])
        common = w.result_common()
        if w.sim.abort_reason:
            common["inconclusive"] = True
        else:
            vcs = a_app.trigger.get_valid_conditions()
            if len(vcs) > 1:
                viol.append({"signature": f"C13/cronconc/{stack}/two-occurrences-for-one-minute/first={int(first_fire)}", "message": f"two pollers at {t_poll.isoformat()} for scheduled minute {m.isoformat()} of '{expr}' recorded {len(vcs)} occurrences: {sorted(vcs)}"})
            elif len(vcs) == 0:
                viol.append({"signature": f"C13/cronconc/{stack}/occurrence-lost/first={int(first_fire)}", "message": f"two pollers inside the window of {m.isoformat()} ('{expr}') recorded no occurrence"})
        common.update({"violations": viol, "nontrivial": common["switches"] > 0, "sample": {"stack": stack, "expr": expr, "first_firing": first_fire, "policy": [policy, parg]}})
        return common
