"""C11 -- stopping a runner leaves none of its invocations owned or unqueued.

Engine B, fault enumeration over stop points: the real ThreadRunner.run() on
both stacks executes a generated workload (independent tasks with virtual
work, tasks waiting on sub-tasks, retrying tasks; 1-3 slots); a stop request
(`stop_runner_loop(SIGTERM)`, i.e. what the signal handler does, executed in
the loop thread between two of its steps) is injected at the K-th scheduling
step of the loop thread -- K stratified over the seed so that a batch of
consecutive seeds sweeps the loop -- or, in the second stratum, at the K-th
step of any thread (the request then comes from outside, as `runner.running =
False` / stop from another thread would).

Oracle: run() returns within the virtual budget (a run that no longer changes
state while run() has not returned is a violation: "the stop completes");
afterwards every invocation the runner ever claimed is final, or in an
available status, queued and without owner; nothing is PENDING / RUNNING /
KILLED under the stopped runner; no recovery timeout was needed.
"""

from __future__ import annotations

import random
import sys
from typing import Any

from models.lifecycle import AVAILABLE, FINALS
from workloads import gen, simtasks
from workloads.deploy import Deployment

PROPERTY = "C11"
LEVEL = "fault_enumeration"
ENGINES = ["B"]
TECHNIQUE = "deterministic simulation with fault injection: stop request injected at the K-th scheduling step of the real ThreadRunner loop (K swept by the seed), seeded interleavings of loop and task threads, post-stop ownership / queue oracle + bounded liveness of run()"
LEVEL_TEXT = (
    "The fault is one stop request; its position is swept: run i of a batch injects it at loop-thread step K = f(i) so that consecutive "
    "seeds cover the loop's scheduling steps (the evidence reports how many distinct (site, K) were hit), everything else (workload, "
    "interleaving) is seeded. After run() returns the store is read out: every invocation ever claimed by the stopped runner must be final "
    "or available + queued + unowned. A stop that never completes is detected as 'run() not returned and no state change for 20 virtual seconds'."
)
LEVEL_NOTE = "Trusted: simkit scheduler (signal delivery = the handler runs in the loop thread at a yield point), transition log, broker drain after the run. One runner is stopped; on SQLite a second runner may stay alive (then the stop must still complete). Stop points are sampled by K, not proven complete."
MINIMIZE = "schedule"
RULE = (
    "one run = workload (flat / tree / retrying programs, 1-3 slots) x stop step K x seeded schedule (pending-thread strata: late task-thread starts, stop placed on thread-started-still-PENDING, slow stop = a stall before every effect inside _kill_and_reroute); non-trivial = the stop landed while "
    "the runner held at least one claimed, non-final invocation; distinct = distinct (stop site, switch-site hash)."
)
ASSUMPTIONS = [
    "'the stop completes' is required also when the stopped runner is the only one; work it never claimed may stay queued",
    "a termination signal is modelled as its handler running in the loop thread between two scheduling steps",
]
REAL = ["BaseRunner.run / stop_runner_loop / on_stop", "ThreadRunner._on_stop / _kill_and_reroute / runner_loop_iteration", "orchestrators", "brokers", "DistributedInvocation.run"]
STUBBED = ["signal delivery", "thread scheduling", "clock", "uuid4"]
PROBES = ["thread_start_failure", "stop_with_pending", "stop_with_running", "stop_with_waiting_parent", "stop_between_claim_and_thread_start", "stop_idle", "kill_and_reroute", "stop_with_more_threads_than_slots", "stop_with_started_thread_still_pending"]


def plan(tier: str) -> list[dict]:
    q = tier == "quick"
    return [
        {"stratum": "mem-loop", "runs": 320 if q else 16000, "params": {"stack": "mem", "where": "loop"}, "chunk": 20 if q else 400},
        {"stratum": "mem-any", "runs": 160 if q else 8000, "params": {"stack": "mem", "where": "any"}, "chunk": 10 if q else 200},
        {"stratum": "sqlite-loop", "runs": 128 if q else 6000, "params": {"stack": "sqlite", "where": "loop"}, "chunk": 8 if q else 150},
        {"stratum": "mem-pending-thread", "runs": 160 if q else 8000, "params": {"stack": "mem", "where": "pending-thread"}, "chunk": 10 if q else 200},
        {"stratum": "sqlite-pending-thread", "runs": 64 if q else 3000, "params": {"stack": "sqlite", "where": "pending-thread"}, "chunk": 8 if q else 150},
        {"stratum": "sqlite-over-slots", "runs": 96 if q else 4000, "params": {"stack": "sqlite", "where": "over-slots"}, "chunk": 6 if q else 100},
    ]


def warmup() -> None:
    run(0, {"stack": "mem", "where": "loop"})
    run(0, {"stack": "sqlite", "where": "loop"})


def run(seed: int, params: dict, replay: dict | None = None) -> dict:
    stack = params["stack"]
    where = params["where"]
    rng = random.Random(f"{seed}:c11")
    idx = seed & 0xFFFF
    kind = rng.choice(["flat", "flat", "tree", "retry"])
    if where == "over-slots":
        # the stop lands while the runner has more task threads than slots (parents waiting for children);
        # a second runner process keeps serving the queue, so the stop can complete
        kind = "tree"
    slots = rng.choice([1, 2, 3])
    policy = rng.choice(["rand", "rand", "rr"])
    parg = {"rand": rng.choice([0.1, 0.3]), "rr": rng.choice([1, 3])}[policy]
    # two runner processes only on SQLite (an in-memory app lives in one process with one runner)
    n_runners = 2 if (stack == "sqlite" and rng.random() < (0.7 if kind == "tree" else 0.25)) else 1
    if where == "over-slots":
        n_runners = 2
        slots = rng.choice([1, 1, 2])
    names = gen.Names()
    if kind == "flat":
        roots = [gen.gen_prog(rng, names, depth=0, p_fail=0.0, work=(0.01, 0.03, 0.08)) for _ in range(rng.randint(1, 4))]
    elif kind == "tree":
        roots = [gen.gen_prog(rng, names, depth=2, p_kids=0.9, p_fail=0.0, work=(0.0, 0.02, 0.3)) for _ in range(rng.randint(1, 2))]
    else:
        roots = [gen.gen_prog(rng, names, depth=0, p_fail=0.9, excs=("retry",), work=(0.0, 0.02)) for _ in range(rng.randint(1, 3))]
    # stop step: sweep 1..~600 with the run index, denser at the beginning
    K = 1 + (idx * 7) % 97 + 97 * ((idx // 97) % 6) if where == "loop" else 1 + (idx * 13) % 1500
    if where == "over-slots":
        K = 1 + (idx * 5) % 60
    if where == "pending-thread":
        # the stop lands at the K-th loop-thread step at which a claimed invocation has its task thread but is not RUNNING yet
        K = 1 + idx % 4
        slots = rng.choice([2, 3, 3])
        if kind == "tree":
            kind = "flat"
            roots = [gen.gen_prog(rng, names, depth=0, p_fail=0.0, work=(0.01, 0.03, 0.08)) for _ in range(rng.randint(2, 4))]
    schedule = replay.get("schedule") if replay else None
    viol: list[dict] = []
    with Deployment(seed, stack, n_runners, policy=policy, policy_arg=parg, schedule=schedule, max_steps=300_000, max_time=90.0, conf={"max_threads": slots}) as d:
        sim = d.sim
        if rng.random() < 0.25:
            # buggify: "can't start new thread" for the n-th task thread of the run
            sim.thread_start_failures = {rng.randint(1, 4)}
        d.register(simtasks.prog, max_retries=2)
        runner = d.runners["r1"]
        rid = runner.runner_id
        info: dict[str, Any] = {"stop_at": None, "site": None, "returned_at": None}
        submitted: list[str] = []

        def snapshot_claims() -> dict[str, int]:
            owned = {"PENDING": 0, "RUNNING": 0}
            cur: dict[str, tuple[str, Any]] = {}
            for e in sorted(d.w.tlog, key=lambda e: (e["ts"], e["seq"])):
                cur[e["inv"]] = (e["status"], e["owner"])
            for s, o in cur.values():
                if o == rid and s in owned:
                    owned[s] += 1
            return owned

        def do_stop(th: Any, kind_: str, detail: Any) -> None:
            info["stop_at"] = sim.now
            info["site"] = (kind_, str(detail)[:40])
            owned = snapshot_claims()
            if owned["PENDING"]:
                sim.bump("probe.stop_with_pending")
            if owned["RUNNING"]:
                sim.bump("probe.stop_with_running")
            if runner.waiting_invocation_ids:
                sim.bump("probe.stop_with_waiting_parent")
            if not owned["PENDING"] and not owned["RUNNING"]:
                sim.bump("probe.stop_idle")
            claimed_unstarted = owned["PENDING"] and len(runner.threads) < owned["PENDING"] + owned["RUNNING"]
            if claimed_unstarted:
                sim.bump("probe.stop_between_claim_and_thread_start")
            sim.bump("fault.stop_request")
            sim.log_event("fault-stop", info["site"])
            if where in ("loop", "over-slots", "pending-thread"):
                runner.stop_runner_loop(15, None)
            else:
                runner.running = False

        counter = {"n": 0}
        seen = {"i": 0}
        cur_status: dict[str, tuple[str, Any]] = {}

        def thread_started_not_running() -> bool:
            """Some invocation claimed by r1 is still PENDING although its task thread exists (read from the transition log)."""
            tl = d.w.tlog
            while seen["i"] < len(tl):
                e = tl[seen["i"]]
                cur_status[e["inv"]] = (e["status"], e["owner"])
                seen["i"] += 1
            started = {str(k) for k in list(runner.threads)}
            return any(s == "PENDING" and o == rid and inv in started for inv, (s, o) in cur_status.items())

        slow = {"n": 0}
        slow_stop = where == "pending-thread" and rng.random() < 0.7
        stall = rng.choice([0.005, 0.02, 0.04])
        if where == "pending-thread":
            # task threads of r1 start late (virtual time), so "thread exists, invocation still PENDING" lasts long enough
            # to be caught by the stop; with slow_stop every effect inside _kill_and_reroute is preceded by a short stall
            # of the loop thread, so such a thread can move on between two effects of the stop
            delays = random.Random(f"{seed}:c11:delay")
            sim.start_delay = lambda th_: delays.choice([0.0, 0.01, 0.03, 0.06]) if th_.name.startswith("r1/") and th_.name != "r1/main" else 0.0

        def inside(fn: str) -> bool:
            f = sys._getframe(2)
            for _ in range(40):
                if f is None:
                    return False
                if f.f_code.co_name == fn:
                    return True
                f = f.f_back
            return False

        def hook(th: Any, kind_: str, detail: Any) -> None:
            if info["stop_at"] is not None and slow_stop and th.name == "r1/main" and slow["n"] < 40 and kind_ in ("sql", "line", "lock-acquire", "clock") and inside("_kill_and_reroute"):
                slow["n"] += 1
                if slow["n"] == 1:
                    sim.bump("fault.slow_stop")
                sim.sleep(stall)
                return
            if info["stop_at"] is not None or not runner.running:
                return
            if where == "loop":
                if th.name == "r1/main" and th.nyield >= K:
                    do_stop(th, kind_, detail)
            elif where == "pending-thread":
                if th.name == "r1/main" and thread_started_not_running():
                    counter["n"] += 1
                    if counter["n"] >= K:
                        sim.bump("probe.stop_with_started_thread_still_pending")
                        do_stop(th, kind_, detail)
            elif where == "over-slots":
                if th.name == "r1/main" and len(runner.threads) > runner.max_parallel_slots:
                    counter["n"] += 1
                    if counter["n"] >= K:
                        sim.bump("probe.stop_with_more_threads_than_slots")
                        do_stop(th, kind_, detail)
            else:
                counter["n"] += 1
                if counter["n"] >= K and th.actor.name == "r1":
                    do_stop(th, kind_, detail)

        sim.fault_hook = hook
        orig_run = runner.run

        def runner_main() -> None:
            try:
                orig_run()
            except Exception as e:  # noqa: BLE001  an exception escaping run() means the stop sequence was cut short
                info["run_raised"] = f"{type(e).__name__}: {e}"[:300]
                info["run_raised_type"] = type(e).__name__
            finally:
                info["returned_at"] = sim.now

        def client() -> None:
            t = d.task("c", "prog")
            for r in roots:
                submitted.append(str(t(r).invocation_id))
            # wait until r1's run() has returned or is stuck
            last_sig = None
            last_change = sim.now
            while info["returned_at"] is None:
                sim.sleep(0.25)
                sig = (len(d.w.tlog), d.app("c").broker.count_invocations())
                if sig != last_sig:
                    last_sig, last_change = sig, sim.now
                if info["stop_at"] is not None and sim.now - info["stop_at"] > 20.0 and sim.now - last_change > 10.0:
                    info["stuck"] = True
                    break
                if info["stop_at"] is None and sim.now - sim.epoch > (2.0 if where == "over-slots" else 40.0):
                    # the workload finished before step K was reached: stop now (orderly end)
                    if d.wait_final("c", submitted, timeout=0.0):
                        info["late"] = True
                        sim.fault_hook = None
                        runner.running = False
            # the scenario is over once r1's run() has returned (or is stuck).  A second runner may be in the
            # middle of claiming what r1 re-queued (popped, PENDING not yet written): let it come to rest first,
            # so that "available but not queued" at the read-out really means lost
            if not info.get("stuck") and n_runners == 2:
                sim.sleep(1.0)
                r2 = d.runners["r2"]
                r2.running = False
                t_end = sim.now + 30.0
                while not info.get("r2_returned") and sim.now < t_end:
                    sim.sleep(0.25)
            sim.stop_run("stop-stuck" if info.get("stuck") else "scenario-done")

        mains_extra = []
        d.runners["r1"].run = runner_main  # type: ignore[method-assign]
        if n_runners == 2:
            orig_run2 = d.runners["r2"].run

            def runner2_main() -> None:
                try:
                    orig_run2()
                finally:
                    info["r2_returned"] = True

            d.runners["r2"].run = runner2_main  # type: ignore[method-assign]
        d.run({"c": client}, extra=mains_extra)
        w = d.w
        common = w.result_common()
        st = common["stats"]
        if info.get("stuck"):
            waiting = sorted(w.alias(i) for i in runner.waiting_invocation_ids)
            alive = [w.alias(k) for k, ti in runner.threads.items() if ti.thread.state != "done"]
            viol.append(
                {
                    "signature": f"C11/{stack}/stop-never-completes/kind={kind}/runners={n_runners}",
                    "message": f"stop requested at +{info['stop_at'] - sim.epoch:.3f}s (site {info['site']}); 20 virtual seconds later run() has not returned and nothing changes any more: live task threads {alive}, waiting set {waiting}",
                }
            )
        elif sim.abort_reason != "scenario-done":
            common["inconclusive"] = True
        elif info["stop_at"] is not None and info["returned_at"] is not None:
            if info.get("run_raised"):
                # "the stop completes": run() must return, not raise out of on_stop
                viol.append({"signature": f"C11/{stack}/run-raised/{info['run_raised_type']}/kind={kind}", "message": f"run() of the stopped runner raised {info['run_raised']} (stop site {info['site']}, step {K})"})
            if any(e["status"] == "KILLED" for e in w.tlog):
                st["probe.kill_and_reroute"] = 1
            # read-out after the stop
            app = d.app("c")
            queue: list[str] = []
            while True:
                m = app.broker.retrieve_invocation()
                if m is None or len(queue) > 200:
                    break
                queue.append(str(m))
            claimed = {e["inv"] for e in w.tlog if e["status"] == "PENDING" and e["requester"] == rid}
            for inv in sorted(claimed):
                rec = app.orchestrator.get_invocation_status_record(inv)
                s, o = rec.status.name, rec.runner_id
                if s in FINALS:
                    continue
                # another live runner may legitimately hold it by now
                if o is not None and o != rid:
                    continue
                if o == rid or s in ("PENDING", "RUNNING", "KILLED", "PAUSED", "RESUMED"):
                    viol.append({"signature": f"C11/{stack}/left-owned/{s}/kind={kind}", "message": f"{w.alias(inv)} is {s} (owner {o}) after runner {rid[:8]} stopped (stop site {info['site']}, step {K})"})
                elif s in AVAILABLE:
                    if inv not in queue:
                        viol.append({"signature": f"C11/{stack}/not-requeued/{s}/kind={kind}", "message": f"{w.alias(inv)} is {s}, unowned, but not in the queue after the stop (queue {[w.alias(q) for q in queue]}; stop site {info['site']}, step {K})"})
                else:
                    viol.append({"signature": f"C11/{stack}/left-unavailable/{s}/kind={kind}", "message": f"{w.alias(inv)} is {s} after the stop: neither final nor available (stop site {info['site']}, step {K})"})
        if st.get("fault.thread_start_failure"):
            st["probe.thread_start_failure"] = st["fault.thread_start_failure"]
        nontrivial = bool(st.get("probe.stop_with_pending") or st.get("probe.stop_with_running") or st.get("probe.stop_with_waiting_parent"))
        common["sched_hash"] = f"{info['site']}:{common['sched_hash']}"
        common.update(
            {
                "violations": viol,
                "nontrivial": nontrivial,
                "sample": {"stack": stack, "where": where, "kind": kind, "slots": slots, "runners": n_runners, "policy": [policy, parg], "stop_step": K, "stop_site": info["site"], "stop_at": None if info["stop_at"] is None else round(info["stop_at"] - sim.epoch, 4), "returned_after": None if not info["returned_at"] or not info["stop_at"] else round(info["returned_at"] - info["stop_at"], 4), "roots": roots},
            }
        )
        return common
