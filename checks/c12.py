"""C12 -- global services are authorised for at most one runner at any instant.

Honest scope: the decision function is pure; what depends on time is *when*
runners ask.  The simulation here is the virtual clock driving real code, not a
race search: 1..8 runners are registered on the real orchestrators (both
backends) with stable membership, the clock is frozen at each probed instant
and every runner calls `should_run_atomic_service` (which registers its
heartbeat, lists the active runners from the store and decides).

Instants: a dense grid over several cycles from large epoch offsets plus every
slot boundary of the exact model and its neighbours (+/- 1 us).

Oracle (exact rational model, fractions.Fraction): at most one runner
authorised per instant; every runner is authorised somewhere in every cycle;
windows of consecutive runners at least `margin` apart when the margin fits
into a slot; a single active runner always; authorisation agrees with the
model except within 2 us of a window boundary (float rounding of
minutes * 60 and of the modulo is not claimed exact).
"""

from __future__ import annotations

import hashlib
from fractions import Fraction
from typing import Any

from simkit.seq import SeqEnv

PROPERTY = "C12"
LEVEL = "exploration"
ENGINES = ["A"]
TECHNIQUE = "deterministic simulation (clock seam only): frozen virtual instants swept over cycles and slot boundaries, all registered runners ask the real orchestrators; oracle = exact rational slot model"
LEVEL_TEXT = (
    "Each run fixes (runner count, cycle length, margin, epoch offset) from the seed, registers the runners on the real in-memory and SQLite "
    "orchestrators, and sweeps the frozen simulated clock over a dense grid and over every slot boundary +/- 1 microsecond for three cycles; "
    "at each instant every runner asks should_run_atomic_service. Pairwise disjointness, coverage per cycle, margin separation, the single-runner "
    "case and agreement with an exact Fraction model (away from boundaries) are checked. No scheduling nondeterminism is involved: configurations and instants are sampled."
)
LEVEL_NOTE = "Trusted: the Fraction model (equal slots by position in creation order, margin subtracted, half-slot fallback when the margin does not fit, modulo the cycle), simkit clock freeze. Within 2 microseconds of a boundary only 'at most one authorised' is required."
MINIMIZE = None
RULE = (
    "one run = N in 1..8 runners x cycle in {0.1, 0.5, 1, 5, 7.3} min x margin in {0, small, slot/2, slot, 2*slot} x epoch offset in "
    "{1e6, 1.7e9, 4.1e9} x optional execution history per runner (durations around slot - margin, a slot, 1.7 slots); instants = 3 cycles x (grid + 6N boundary neighbours); non-trivial = N >= 2; distinct = hash of the configuration."
)
ASSUMPTIONS = [
    "stable membership (the property's premise): all runners heart-beat at every probed instant, the liveness timeout is never reached",
    "runner order = creation order as returned by get_active_runners(can_run_atomic_service=True)",
]
REAL = ["atomic_service.can_run_atomic_service / calculate_time_slot / is_runner_in_time_slot", "BaseOrchestrator.should_run_atomic_service", "Mem/SQLite runner heartbeat tables and active-runner queries"]
STUBBED = ["clock (frozen virtual instants)"]
PROBES = ["margin_fallback_branch", "boundary_instant", "zero_margin", "large_epoch", "execution_history_recorded"]


def plan(tier: str) -> list[dict]:
    q = tier == "quick"
    return [{"stratum": "sweep", "runs": 64 if q else 3000, "params": {"grid": 60 if q else 400}, "chunk": 4 if q else 30}]


def warmup() -> None:
    run(1, {"grid": 5})


def model_window(i: int, n: int, cycle: Fraction, margin: Fraction) -> tuple[Fraction, Fraction]:
    slot = cycle / n
    start = i * slot
    end = start + slot - margin
    if end <= start:
        end = start + slot / 2
    return start, end


def run(seed: int, params: dict, replay: dict | None = None) -> dict:
    from pynenc.runner.runner_context import RunnerContext

    viol: list[dict] = []
    stats: dict[str, int] = {}
    with SeqEnv(seed, epoch=1_000_000.0) as env:
        sim = env.sim
        rng = sim.rng_work
        n = rng.choice([1, 2, 2, 3, 3, 4, 5, 8])
        cycle_min = rng.choice([0.1, 0.5, 1.0, 5.0, 7.3])
        slot_min = cycle_min / n
        margin_min = rng.choice([0.0, slot_min / 10, slot_min / 2, slot_min * 0.999, slot_min, slot_min * 1.001, slot_min * 2])
        if margin_min == slot_min and Fraction(margin_min * 60) != Fraction(cycle_min * 60) / n:
            # "margin == slot" is only a meaningful configuration when it is exactly representable;
            # otherwise float rounding decides the branch and nothing is claimed about it
            margin_min = slot_min * 1.001
        offset = rng.choice([1e6, 1.7e9, 4.1e9]) + rng.random() * 1000
        for app in env.apps.values():
            app.conf.atomic_service_interval_minutes = cycle_min
            app.conf.atomic_service_spread_margin_minutes = margin_min
            app.conf.runner_considered_dead_after_minutes = 1e7
        cycle = Fraction(cycle_min * 60)  # the products as the code computes them, then exact
        margin = Fraction(margin_min * 60)
        if margin >= cycle / n:
            stats["probe.margin_fallback_branch"] = 1
        if margin_min == 0.0:
            stats["probe.zero_margin"] = 1
        if offset > 1e9:
            stats["probe.large_epoch"] = 1
        ctxs = [RunnerContext(runner_cls="SimRunner", runner_id=f"runner-{i}") for i in range(n)]
        sim.now = offset
        for c in ctxs:  # distinct creation times, in order
            sim.advance(0.5)
            for app in env.apps.values():
                app.orchestrator.register_runner_heartbeats([c.runner_id], can_run_atomic_service=True)
        if rng.random() < 0.5:
            # execution history: some runners report how long their last service run took (short, about a slot
            # minus the margin, a whole slot, longer); the windows must not depend on it
            from datetime import UTC, datetime

            slot_s = float(cycle) / n
            for c in ctxs:
                if rng.random() < 0.7:
                    dur = rng.choice([0.01, max(0.0, slot_s - float(margin)) * 1.05 + 0.01, slot_s * 0.999, slot_s, slot_s * 1.7])
                    t0_ = sim.now - dur - 1.0
                    for app in env.apps.values():
                        app.orchestrator.record_atomic_service_execution(c.runner_id, datetime.fromtimestamp(t0_, UTC), datetime.fromtimestamp(t0_ + dur, UTC))
                    stats["probe.execution_history_recorded"] = stats.get("probe.execution_history_recorded", 0) + 1
        windows = [model_window(i, n, cycle, margin) for i in range(n)]
        base = (int(sim.now / float(cycle)) + 2) * float(cycle)
        instants: list[float] = []
        grid = int(params.get("grid", 60))
        for cyc in range(3):
            c0 = base + cyc * float(cycle)
            for g in range(grid):
                instants.append(c0 + float(cycle) * g / grid + rng.random() * float(cycle) / grid)
            for s, e in windows:
                for b in (s, e):
                    for d in (-1e-6, 0.0, 1e-6):
                        instants.append(c0 + float(b) + d)
                        stats["probe.boundary_instant"] = stats.get("probe.boundary_instant", 0) + 1
        instants.sort()
        sim.frozen = True
        seen_in_cycle: dict[str, dict[tuple[int, int], bool]] = {st: {} for st in env.apps}
        last_auth: dict[str, tuple[float, int] | None] = {st: None for st in env.apps}
        for t in instants:
            sim.now = t
            tf = Fraction(t)
            pos = tf % cycle
            exp = [i for i, (s, e) in enumerate(windows) if s <= pos < e] if n > 1 else [0]
            near = any(abs(pos - b) <= Fraction(2, 1_000_000) or abs(pos - b - cycle) <= Fraction(2, 1_000_000) for w_ in windows for b in w_) or pos <= Fraction(2, 1_000_000)
            cyc = int(tf // cycle)
            for st, app in env.apps.items():
                got = []
                for i, c in enumerate(ctxs):
                    try:
                        if app.orchestrator.should_run_atomic_service(c):
                            got.append(i)
                    except Exception as e:  # noqa: BLE001
                        viol.append({"signature": f"C12/{st}/raised/{type(e).__name__}", "message": f"should_run_atomic_service raised {type(e).__name__}: {e}"})
                desc = f"n={n} cycle={cycle_min}min margin={margin_min}min t={t!r} (t mod cycle = {float(pos):.7f}s), windows={[(float(s), float(e)) for s, e in windows]}"
                if len(got) > 1:
                    viol.append({"signature": f"C12/{st}/two-authorised/n={n}/margin={'fallback' if margin >= cycle / n else ('zero' if margin == 0 else 'fits')}", "message": f"runners {got} are authorised at the same instant; {desc}"})
                if n == 1 and got != [0]:
                    viol.append({"signature": f"C12/{st}/single-runner-refused", "message": f"the only active runner is not authorised; {desc}"})
                if not near and got != exp:
                    viol.append({"signature": f"C12/{st}/differs-from-model/{'extra' if set(got) - set(exp) else 'missing'}", "message": f"authorised {got}, exact model {exp}; {desc}"})
                for i in got:
                    seen_in_cycle[st][(cyc, i)] = True
                    la = last_auth[st]
                    if la is not None and la[1] != i and n > 1 and margin < cycle / n:
                        gap = t - la[0]
                        if gap < float(margin) - 3e-6:
                            viol.append({"signature": f"C12/{st}/margin-not-kept/n={n}", "message": f"runner {la[1]} authorised at {la[0]!r} and runner {i} at {t!r}: {gap:.6f}s apart < margin {float(margin)}s; {desc}"})
                    last_auth[st] = (t, i)
        sim.frozen = False
        c_first = round(Fraction(base) / cycle)
        for st in env.apps:
            for cyc in range(c_first, c_first + 3):
                for i in range(n):
                    if not seen_in_cycle[st].get((cyc, i)):
                        viol.append({"signature": f"C12/{st}/runner-never-authorised-in-cycle/n={n}", "message": f"runner {i} of {n} was not authorised at any probed instant of cycle {cyc - c_first} (window {tuple(map(float, windows[i]))}); cycle={cycle_min}min margin={margin_min}min"})
        key = repr((n, cycle_min, margin_min, round(offset, 3))).encode()
        return {
            "violations": viol,
            "stats": stats,
            "steps": len(instants) * n * 2,
            "sim_time": round(instants[-1] - instants[0], 3),
            "sched_hash": hashlib.sha256(key).hexdigest()[:16],
            "nontrivial": n >= 2,
            "sample": {"runners": n, "cycle_min": cycle_min, "margin_min": margin_min, "epoch_offset": round(offset, 3), "instants": len(instants), "windows_s": [[float(s), float(e)] for s, e in windows]},
            "digest": hashlib.sha256(key + repr(sorted(v["signature"] for v in viol)).encode()).hexdigest(),
        }
