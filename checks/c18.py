"""C18 -- workflow operations replay deterministically and never mix between workflows.

Engine B: `wf_script` bodies issue generated sequences of deterministic
workflow operations (random / utc_now / uuid / execute_task) through the real
`task.wf` helper, executed by real ThreadRunners in virtual time.  Re-execution
histories: scripted RetryError on chosen attempts (re-run in the same process:
same runner; or in another process image: second runner with its own Pynenc
object on the same SQLite file), several workflows of the same task in one
runner, sequentially and concurrently (2-3 slots), on both state backends.

Oracle: within a workflow the n-th value of each kind is the same in every
execution of the body (every attempt sees a prefix of the same sequence); a
sub-task launched through the helper is one invocation per workflow and call;
the workflow data of a workflow holds records for exactly the operations its
own body issued (nothing of another workflow, nothing beyond its own count);
different workflows do not share values.
"""

from __future__ import annotations

import random
from typing import Any

from workloads import simtasks
from workloads.deploy import Deployment

PROPERTY = "C18"
LEVEL = "exploration"
ENGINES = ["B"]
TECHNIQUE = "deterministic simulation with seeded schedule search: generated workflow scripts re-executed through real ThreadRunners (retries in the same and in another simulated process, several workflows per runner, sequential and concurrent); oracle over per-attempt value logs and stored workflow data"
LEVEL_TEXT = (
    "Each run submits 2-4 workflows of one task with generated operation scripts and scripted retries to 1-2 real ThreadRunners with 1-3 "
    "slots in virtual time under a seeded schedule; bodies log the values they see per attempt. Afterwards all attempts of one workflow must "
    "agree position by position, sub-task launches must be unique per workflow and call, and every workflow's stored data must contain exactly "
    "its own operations. Scripts, re-execution histories and schedules are sampled."
)
LEVEL_NOTE = "Trusted: body-side value log (workloads/simtasks.WF_LOG), simkit scheduler. A re-execution is produced by RetryError (same code path as kill-and-reroute / recovery re-runs: a new DistributedInvocation object is loaded from the state backend)."
MINIMIZE = "schedule"
RULE = (
    "one run = stack x 1-2 runners x 1-3 slots x 2-4 workflows x scripts of 2-6 operations x 0-2 scripted retries each; non-trivial = at "
    "least one body was executed again after issuing operations, or two workflows of the task ran in one runner; distinct = switch-site hash."
)
ASSUMPTIONS = ["every top-level call of the task starts its own workflow (main workflow task), as DistributedInvocation.from_parent does"]
REAL = ["Task.wf / WorkflowContext / DeterministicExecutor", "state backend workflow data (both families)", "DistributedInvocation.run retry path", "ThreadRunner"]
STUBBED = ["thread scheduling", "clock (base time comes from the virtual clock)", "uuid4"]
PROBES = ["reexecuted_after_ops", "two_workflows_same_runner", "concurrent_workflows", "replayed_in_other_process", "subtask_replayed", "nested_sub_workflow"]


def plan(tier: str) -> list[dict]:
    q = tier == "quick"
    return [
        {"stratum": "mem", "runs": 160 if q else 8000, "params": {"stack": "mem"}, "chunk": 10 if q else 200},
        {"stratum": "sqlite", "runs": 96 if q else 5000, "params": {"stack": "sqlite"}, "chunk": 6 if q else 125},
    ]


def warmup() -> None:
    run(0, {"stack": "mem"})
    run(0, {"stack": "sqlite"})


def run(seed: int, params: dict, replay: dict | None = None) -> dict:
    stack = params["stack"]
    rng = random.Random(f"{seed}:c18")
    n_runners = rng.choice([1, 2]) if stack == "sqlite" else 1
    slots = rng.choice([1, 2, 3])
    policy = rng.choice(["rand", "rand", "rr"])
    parg = {"rand": rng.choice([0.1, 0.3]), "rr": rng.choice([1, 3])}[policy]
    n_wf = rng.randint(2, 4)
    scripts = []
    for i in range(n_wf):
        ops: list[Any] = []
        for _ in range(rng.randint(2, 6)):
            r = rng.random()
            ops.append("random" if r < 0.35 else "time" if r < 0.55 else "uuid" if r < 0.75 else ["task", rng.randint(0, 2), rng.randint(0, 1)])
        fail_at = {}
        for att in range(1, rng.choice([1, 1, 2, 3])):
            fail_at[str(att)] = rng.randint(1, len(ops))
        scripts.append({"n": f"w{i}", "ops": ops, "fail_at": fail_at})
    # sub-workflows: the task is declared with force_new_workflow and some workflows call it again from inside
    nested_mode = rng.random() < 0.4
    if nested_mode:
        for s_ in scripts:
            if rng.random() < 0.7:
                n_ops: list[Any] = [rng.choice(["random", "uuid", "time"]) for _ in range(rng.randint(1, 3))]
                s_["ops"].insert(rng.randint(0, len(s_["ops"])), ["nested", {"n": s_["n"] + "n", "ops": n_ops, "fail_at": {}}])
                s_["fail_at"] = {}  # a retried parent would launch the nested workflow again: kept out of this mode
    schedule = replay.get("schedule") if replay else None
    viol: list[dict] = []
    with Deployment(seed, stack, n_runners, policy=policy, policy_arg=parg, schedule=schedule, max_steps=300_000, max_time=120.0, conf={"max_threads": slots}) as d:
        sim = d.sim
        d.register(simtasks.wf_script, max_retries=3, **({"force_new_workflow": True} if nested_mode else {}))
        d.register(simtasks.add)
        simtasks.WF_LOG.clear()
        ids: list[str] = []

        def client() -> None:
            t = d.task("c", "wf_script")
            for s in scripts:
                ids.append(str(t(s).invocation_id))
                if rng.random() < 0.5:
                    sim.sleep(rng.choice([0.0, 0.02, 0.2]))
            d.wait_final("c", ids, timeout=100.0)
            d.stop_runners()

        d.run({"c": client})
        w = d.w
        common = w.result_common()
        st = common["stats"]
        log = [dict(e) for e in simtasks.WF_LOG]
        simtasks.WF_LOG.clear()
        if sim.abort_reason:
            common["inconclusive"] = True
        else:
            app = d.app("c")
            by_wf: dict[str, list[dict]] = {}
            for e in log:
                by_wf.setdefault(e["workflow"], []).append(e)
            runner_of: dict[str, set[str]] = {}
            for e in w.tlog:
                if e["status"] == "RUNNING":
                    runner_of.setdefault(e["inv"], set()).add(e["requester"])
            if any(len(v) > 1 for v in runner_of.values()):
                st["probe.replayed_in_other_process"] = 1
            per_runner: dict[str, set[str]] = {}
            for inv, rs in runner_of.items():
                if inv in ids:
                    for r in rs:
                        per_runner.setdefault(r, set()).add(inv)
            if any(len(v) > 1 for v in per_runner.values()):
                st["probe.two_workflows_same_runner"] = 1
            if slots > 1 and n_wf > 1:
                st["probe.concurrent_workflows"] = 1
            all_scripts = list(scripts) + [op[1] for s_ in scripts for op in s_["ops"] if isinstance(op, list) and op[0] == "nested"]
            if nested_mode:
                st["probe.nested_sub_workflow"] = sum(1 for s_ in all_scripts if s_["n"].endswith("n"))
                for wf_id, entries in by_wf.items():
                    names_ = sorted({e["name"] for e in entries})
                    if len(names_) > 1:
                        viol.append({"signature": f"C18/{stack}/workflows-share-identity", "message": f"the executions of {names_} (a workflow and the force_new_workflow call it made) carry the same workflow id {wf_id}: their deterministic values and records are shared"})
            all_values: dict[tuple, str] = {}
            for wf_id, entries in by_wf.items():
                if len({e["name"] for e in entries}) > 1:
                    continue
                entries.sort(key=lambda e: e["attempt"])
                name = entries[0]["name"]
                script = next(s for s in all_scripts if s["n"] == name)
                if any(e["attempt"] > 1 and entries[0]["values"] for e in entries):
                    st["probe.reexecuted_after_ops"] = st.get("probe.reexecuted_after_ops", 0) + 1
                ref = max(entries, key=lambda e: len(e["values"]))["values"]
                for e in entries:
                    for k, (kind, val) in enumerate(e["values"]):
                        if k < len(ref) and ref[k] != [kind, val]:
                            viol.append(
                                {
                                    "signature": f"C18/{stack}/replay-differs/{kind}",
                                    "message": f"workflow {name}: operation #{k} ({kind}) is {val!r} on attempt {e['attempt']} but {ref[k][1]!r} on another execution; attempts: { {x['attempt']: x['values'] for x in entries} }; script {script}; runners={n_runners} slots={slots}",
                                }
                            )
                            break
                    if e["attempt"] > 1 and any(v[0] == "task" for v in e["values"]):
                        st["probe.subtask_replayed"] = 1
                # stored records == own operations
                counts = {"random": 0, "time": 0, "uuid": 0}
                for op in script["ops"]:
                    if isinstance(op, str):
                        counts[op] += 1
                ident = app.state_backend.get_invocation(entries[0]["inv"]).workflow
                for kind, cnt in counts.items():
                    for n in range(1, cnt + 4):
                        v = app.state_backend.get_workflow_data(ident, f"{kind}:{n}", None)
                        if n <= cnt and v is None and entries[-1]["complete"]:
                            viol.append({"signature": f"C18/{stack}/record-missing/{kind}", "message": f"workflow {name} issued {cnt} {kind} operations and completed, but '{kind}:{n}' is not in its workflow data (recorded elsewhere?); log {[(x['attempt'], x['values']) for x in entries]}"})
                        if n > cnt and v is not None:
                            viol.append({"signature": f"C18/{stack}/foreign-record/{kind}", "message": f"workflow {name} issues only {cnt} {kind} operations but its workflow data holds '{kind}:{n}' = {v!r} (written by another workflow's execution); script {script}"})
                for kind, val in ref:
                    if kind in ("random", "uuid"):
                        key = (kind, repr(val))
                        if key in all_values and all_values[key] != wf_id:
                            viol.append({"signature": f"C18/{stack}/value-shared-between-workflows/{kind}", "message": f"{kind} value {val!r} was handed to two different workflows"})
                        all_values[key] = wf_id
                # sub-tasks: once per workflow and call
                launched: dict[tuple, set[str]] = {}
                for e in entries:
                    ops_t = [op for op in script["ops"] if not isinstance(op, str) and op[0] == "task"]
                    seen_t = [v[1] for v in e["values"] if v[0] == "task"]
                    for op, inv_id in zip(ops_t, seen_t):
                        launched.setdefault((op[1], op[2]), set()).add(inv_id)
                for call, invs in launched.items():
                    if len(invs) > 1:
                        viol.append({"signature": f"C18/{stack}/subtask-launched-twice", "message": f"workflow {name}: execute_task(add, {call}) returned {len(invs)} different invocations across executions: {sorted(w.alias(i) for i in invs)}"})
            missing = [s["n"] for s in all_scripts if not any(e["name"] == s["n"] for e in log)]
            if missing:
                viol.append({"signature": f"C18/{stack}/workflow-never-ran", "message": f"workflows {missing} have no logged execution"})
        common.update(
            {
                "violations": viol,
                "nontrivial": bool(st.get("probe.reexecuted_after_ops") or st.get("probe.two_workflows_same_runner")),
                "sample": {"stack": stack, "runners": n_runners, "slots": slots, "policy": [policy, parg], "scripts": scripts, "executions": [[e["name"], e["attempt"], len(e["values"]), e["complete"]] for e in log]},
            }
        )
        return common
