"""C06 -- running concurrency control: never two RUNNING invocations with the same key.

Engine B: the real ThreadRunner loop (1 runner in memory, 1-3 runner processes
on SQLite, 1-2 slots each) over a `keyed2(a, b, c)` task registered per run
with running concurrency TASK / ARGUMENTS / KEYS, a key-argument choice and the
reroute option; multisets of submissions with equal and different keys through
every path (single call, parallelize non-batch, parallelize batch, trigger
execute_task, retry, reroute).

Oracle over the transition log:
  * RUNNING intervals of two invocations with the same concurrency key never
    overlap (evaluated on the serialised order of status writes);
  * the poll never fails (a runner loop that dies with an exception out of
    get_invocations_to_run is a violation);
  * a blocked invocation ends CONCURRENCY_CONTROLLED_FINAL or is re-queued as
    configured;
  * an invocation is only ever concurrency-controlled if a same-key invocation
    was PENDING or RUNNING at some instant during that poll.
"""

from __future__ import annotations

import random
from typing import Any

from models.lifecycle import FINALS
from workloads import simtasks
from workloads.deploy import Deployment

PROPERTY = "C06"
LEVEL = "exploration"
ENGINES = ["B"]
TECHNIQUE = "deterministic simulation with seeded schedule search: real ThreadRunner loops in virtual time over generated submission multisets; oracle = per-key RUNNING-interval disjointness on the transition log"
LEVEL_TEXT = (
    "Each run registers the keyed task with a seeded (mode, key arguments, reroute option), submits a seeded multiset of calls through "
    "every submission path and lets 1-3 real ThreadRunner loops (own Pynenc objects on one SQLite file, or one in-memory process) execute "
    "them under a seeded schedule in virtual time; bodies hold RUNNING for a virtual interval. The transition log gives, per invocation, "
    "the RUNNING intervals in the store's serialisation order; same-key overlap, a failing poll, a wrong outcome for a blocked invocation "
    "and blocking across different keys are violations. Schedules and submission multisets are sampled."
)
LEVEL_NOTE = "Trusted: simkit scheduler / SQLite seam, transition log wrappers, the key function re-implemented in the check (task; task + all arguments; task + key arguments). Findings that need a redesign are listed in known_findings.json with narrow signatures."
MINIMIZE = "schedule"
RULE = (
    "one run = (mode in TASK/ARGUMENTS/KEYS) x (key arguments) x (reroute option) x 3-7 submissions over paths "
    "{call, par, batch, trigger, retry} with keys from a 2x2 domain x (1-3 runners, 1-2 slots) under one seeded schedule; in 30 % of the runs an operator thread purges finished invocations (auto_purge, 36 ms horizon) meanwhile. "
    "Non-trivial = at least two same-key invocations were submitted and at least one invocation was blocked by concurrency "
    "control or two same-key invocations reached RUNNING; distinct = distinct hash of context-switch sites."
)
ASSUMPTIONS = [
    "'at no instant two RUNNING' is evaluated on the serialised order of status writes (record timestamps), not on what two pollers read",
    "the in-memory family is one process: one runner; several runners only on the SQLite family",
]
REAL = ["BaseOrchestrator.get_invocations_to_run / route_call / route_calls", "Mem/SQLite orchestrators (argument index)", "ThreadRunner loop", "DistributedInvocation.run", "Task.parallelize", "BaseTrigger.execute_task", "SQLite engine"]
STUBBED = ["thread / process scheduling", "clock", "uuid4", "busy handler"]
PROBES = ["blocked_final", "blocked_rerouted", "same_key_pairs", "two_pollers_same_key", "retry_blocked", "batch_path_used", "auto_purge_calls", "slow_client_submission", "key_arguments_declared_in_other_mode"]


def plan(tier: str) -> list[dict]:
    q = tier == "quick"
    return [
        {"stratum": "mem-1runner", "runs": 240 if q else 10000, "params": {"stack": "mem", "runners": 1}, "chunk": 15 if q else 250},
        {"stratum": "sqlite-1runner", "runs": 128 if q else 5000, "params": {"stack": "sqlite", "runners": 1}, "chunk": 8 if q else 125},
        {"stratum": "sqlite-slow-client-batch", "runs": 96 if q else 4000, "params": {"stack": "sqlite", "runners": 1, "focus": "slow-batch"}, "chunk": 8 if q else 125},
        {"stratum": "sqlite-nrunners", "runs": 128 if q else 5000, "params": {"stack": "sqlite", "runners": 0}, "chunk": 8 if q else 125},
    ]


def warmup() -> None:
    run(0, {"stack": "mem", "runners": 1})
    run(0, {"stack": "sqlite", "runners": 1})


def _key(mode: str, key_args: tuple[str, ...], kw: dict) -> tuple:
    if mode == "TASK":
        return ("task",)
    if mode == "ARGUMENTS":
        return tuple(sorted((k, repr(v)) for k, v in kw.items()))
    return tuple((k, repr(kw[k])) for k in key_args)


def run(seed: int, params: dict, replay: dict | None = None) -> dict:
    from pynenc.arguments import Arguments
    from pynenc.conf.config_task import ConcurrencyControlType as CC

    stack = params["stack"]
    rng = random.Random(f"{seed}:c06")
    n_runners = params["runners"] or rng.choice([2, 2, 3])
    policy = rng.choice(["rand", "rand", "pct"])
    parg = {"rand": rng.choice([0.1, 0.3]), "pct": rng.choice([1, 2, 3])}[policy]
    mode = rng.choice(["TASK", "ARGUMENTS", "KEYS", "KEYS"])
    key_args = rng.choice([("a",), ("a", "b")])
    reroute = rng.random() < 0.5
    slots = rng.choice([1, 2])
    n_sub = rng.randint(3, 7)
    subs = []
    for i in range(n_sub):
        path = rng.choice(["call", "call", "par", "batch", "trigger", "retry"])
        kw = {"a": rng.randint(0, 1), "b": rng.randint(0, 1), "c": rng.choice([0, i]), "work": rng.choice([0.02, 0.05, 0.1]), "retry": 1 if path == "retry" else 0}
        if subs and rng.random() < (0.5 if mode == "ARGUMENTS" else 0.15):
            kw = dict(subs[rng.randrange(len(subs))][1])  # an exact repeat: the same key in every mode, ARGUMENTS included
        subs.append((path, kw))
    focus = params.get("focus")
    if focus == "slow-batch":
        # a same-key pair submitted as one group by a slow client, two slots: both are queued before either is indexed
        mode = rng.choice(["ARGUMENTS", "KEYS", "KEYS"])
        slots = 2
        gp = rng.choice(["batch", "par"])
        first = dict(subs[0][1], retry=0)
        subs[0:2] = [(gp, first), (gp, dict(first) if mode == "ARGUMENTS" else dict(first, c=first["c"] + 100))]
    schedule = replay.get("schedule") if replay else None
    declared_keys_other_mode = False
    opts: dict[str, Any] = {"running_concurrency": CC[mode], "reroute_on_concurrency_control": reroute, "max_retries": 2}
    if mode == "KEYS" or rng.random() < 0.4:
        # key arguments may be declared whatever the running mode is (they only matter for KEYS)
        opts["key_arguments"] = key_args
        if mode != "KEYS":
            declared_keys_other_mode = True
    viol: list[dict] = []
    # housekeeping in some runs: finished invocations are purged almost at once by an operator thread that calls the
    # public auto_purge() while same-key work is still running (the purge must not disturb the concurrency index)
    purging = rng.random() < 0.3
    conf: dict[str, Any] = {"max_threads": slots}
    if purging:
        conf["auto_final_invocation_purge_hours"] = 1e-5  # 36 virtual ms
    with Deployment(seed, stack, n_runners, policy=policy, policy_arg=parg, schedule=schedule, max_steps=150_000, max_time=60.0, conf=conf) as d:
        sim = d.sim
        d.register(simtasks.keyed2, **opts)
        # the non-batch parallelize path needs its own task object options: same function, batch size 0
        info: dict[str, dict] = {}
        polls: list[dict] = []
        for name, r in d.runners.items():
            orch = d.app(name).orchestrator
            orig = orch.get_invocations_to_run

            def wrapped(n: int, ctx: Any, _orig: Any = orig, _name: str = name) -> Any:
                rec = {"runner": _name, "start": sim.now, "end": None}
                polls.append(rec)
                try:
                    yield from _orig(n, ctx)
                finally:
                    rec["end"] = sim.now

            orch.get_invocations_to_run = wrapped

        # fault: a slow client - every effect it performs inside one submission is preceded by a short stall, so the
        # windows between "registered", "queued" and "indexed" are held open while the runners poll
        slow_client = rng.random() < 0.3 or focus == "slow-batch"
        if slow_client:
            import sys as _sys

            pause = rng.choice([0.02, 0.05])
            budget = {"n": 0}

            def hook(th: Any, kind_: str, detail: Any) -> None:
                if th.name != "c/main" or budget["n"] >= 80 or kind_ not in ("sql", "line", "lock-acquire", "clock"):
                    return
                f = _sys._getframe(2)
                for _ in range(40):
                    if f is None:
                        return
                    if f.f_code.co_name in ("route_calls", "_route_new_call_invocation", "register_new_invocations"):
                        break
                    f = f.f_back
                else:
                    return
                budget["n"] += 1
                if budget["n"] == 1:
                    sim.bump("fault.slow_client_submission")
                sim.sleep(pause)

            sim.fault_hook = hook

        def client() -> None:
            app = d.app("c")
            t = d.task("c", "keyed2")
            i = 0
            while i < len(subs):
                path, kw = subs[i]
                if path in ("par", "batch"):
                    # a group: this submission and the following ones of the same path
                    group = [kw]
                    j = i + 1
                    while j < len(subs) and subs[j][0] == path:
                        group.append(subs[j][1])
                        j += 1
                    if len(group) == 1:
                        group.append(dict(kw, c=kw["c"] + 100))
                        subs.insert(i + 1, (path, group[1]))
                        j = i + 2
                    saved = t.conf.parallel_batch_size
                    if path == "par":
                        t.conf.parallel_batch_size = 0
                    try:
                        grp = t.parallelize([dict(g) for g in group])
                    finally:
                        t.conf.parallel_batch_size = saved
                    for inv, g in zip(grp.invocations, group):
                        info[str(inv.invocation_id)] = {"path": path, "kw": g}
                    if path == "batch":
                        sim.bump("probe.batch_path_used")
                    i = j
                else:
                    if path == "trigger":
                        inv = app.trigger.execute_task(t.task_id, dict(kw))
                    else:
                        inv = t._call(Arguments(kwargs=dict(kw)))
                    info[str(inv.invocation_id)] = {"path": path, "kw": kw}
                    i += 1
                if rng.random() < 0.3:
                    sim.sleep(rng.choice([0.005, 0.03]))
            if purging:
                # purged records cannot be read back: completion is read from the transition log
                t_end = sim.now + 20.0
                while sim.now < t_end:
                    last: dict[str, str] = {}
                    for e in sorted(d.w.tlog, key=lambda e: (e["ts"], e["seq"])):
                        last[e["inv"]] = e["status"]
                    if all(last.get(i) in FINALS for i in info):
                        break
                    sim.sleep(0.05)
            else:
                d.wait_final("c", list(info), timeout=20.0)
            state["done"] = True
            d.stop_runners()

        state = {"done": False}

        def purger() -> None:
            app = d.app("c")
            while not state["done"]:
                sim.sleep(0.03)
                try:
                    app.orchestrator.auto_purge()
                    sim.bump("probe.auto_purge_calls")
                except Exception as e:  # noqa: BLE001
                    d.w.observe("purge-raised", f"{type(e).__name__}: {e}")
                    return

        d.run({"c": client}, extra=[("c", "purger", purger)] if purging else None)
        w = d.w
        common = w.result_common()
        st = common["stats"]
        if sim.abort_reason:
            common["inconclusive"] = True
        # ---- oracle -----------------------------------------------------
        keys = {inv: _key(mode, key_args, {k: v for k, v in m["kw"].items()}) for inv, m in info.items()}
        same_pairs = sum(1 for a in keys for b in keys if a < b and keys[a] == keys[b])
        st["probe.same_key_pairs"] = same_pairs
        if declared_keys_other_mode:
            st["probe.key_arguments_declared_in_other_mode"] = 1
        if st.get("fault.slow_client_submission"):
            st["probe.slow_client_submission"] = st["fault.slow_client_submission"]
        by_inv: dict[str, list[dict]] = {}
        for e in sorted(w.tlog, key=lambda e: (e["ts"], e["seq"])):
            by_inv.setdefault(e["inv"], []).append(e)
        intervals: dict[str, list[tuple[float, float, str]]] = {}  # inv -> [(start, end, kind)]
        for inv, evs in by_inv.items():
            if inv not in info:
                continue
            for i, e in enumerate(evs):
                if e["status"] in ("RUNNING", "PENDING"):
                    end = evs[i + 1]["ts"] if i + 1 < len(evs) else float("inf")
                    intervals.setdefault(inv, []).append((e["ts"], end, e["status"]))
        invs = sorted(info)
        for x in range(len(invs)):
            for y in range(x + 1, len(invs)):
                a, b = invs[x], invs[y]
                if keys[a] != keys[b]:
                    continue
                for s1, e1, k1 in intervals.get(a, []):
                    for s2, e2, k2 in intervals.get(b, []):
                        if k1 == "RUNNING" and k2 == "RUNNING" and max(s1, s2) < min(e1, e2):
                            paths = "+".join(sorted([info[a]["path"], info[b]["path"]]))
                            rn = "1" if n_runners == 1 else "n"
                            viol.append(
                                {
                                    "signature": f"C06/{stack}/two-running/mode={mode}/paths={paths}/runners={rn}",
                                    "message": f"{w.alias(a)} ({info[a]['path']}, {info[a]['kw']}) RUNNING [{s1:.4f},{e1:.4f}) and {w.alias(b)} ({info[b]['path']}, {info[b]['kw']}) RUNNING [{s2:.4f},{e2:.4f}) overlap with equal key {keys[a]} (mode {mode}, key_arguments {key_args}, {n_runners} runner(s), {slots} slot(s))",
                                }
                            )
        # the poll never fails
        for n, e in sim.thread_exceptions:
            if n.endswith("/main") and n.startswith("r"):
                det = ""
                if hasattr(e, "from_status") and hasattr(e, "to_status"):
                    det = f"/{getattr(e.from_status, 'name', e.from_status)}->{getattr(e.to_status, 'name', e.to_status)}"
                viol.append({"signature": f"C06/{stack}/poll-failed/{type(e).__name__}{det}/reroute={reroute}", "message": f"runner loop {n} died: {type(e).__name__}: {e}"})
                if "RETRY" in det:
                    st["probe.retry_blocked"] = st.get("probe.retry_blocked", 0) + 1
            elif not n.startswith("c/"):
                pass  # task threads re-raise application errors by design
        # blocked outcome as configured + only same-key blocks
        for inv, evs in by_inv.items():
            if inv not in info:
                continue
            for i, e in enumerate(evs):
                if e["status"] not in ("CONCURRENCY_CONTROLLED", "CONCURRENCY_CONTROLLED_FINAL"):
                    continue
                if e["status"] == "CONCURRENCY_CONTROLLED_FINAL":
                    st["probe.blocked_final"] = st.get("probe.blocked_final", 0) + 1
                    if reroute:
                        viol.append({"signature": f"C06/{stack}/blocked-outcome/final-despite-reroute", "message": f"{w.alias(inv)} ended CONCURRENCY_CONTROLLED_FINAL although the task reroutes on concurrency control"})
                else:
                    st["probe.blocked_rerouted"] = st.get("probe.blocked_rerouted", 0) + 1
                    if not reroute:
                        viol.append({"signature": f"C06/{stack}/blocked-outcome/rerouted-despite-final", "message": f"{w.alias(inv)} was re-queued although the task does not reroute on concurrency control"})
                # which poll was it?
                poll = None
                for pr in polls:
                    if pr["runner"] == e["requester"] and pr["start"] <= e["ts"] and (pr["end"] is None or e["ts"] <= pr["end"]):
                        poll = pr
                lo = poll["start"] if poll else e["ts"] - 1.0
                blockers = [o for o in invs if o != inv and keys[o] == keys[inv] and any(s < e["ts"] and en > lo for s, en, _ in intervals.get(o, []))]
                if not blockers:
                    viol.append({"signature": f"C06/{stack}/blocked-without-same-key/mode={mode}", "message": f"{w.alias(inv)} (key {keys[inv]}) was concurrency-controlled at t={e['ts']:.4f} but no invocation with the same key was PENDING or RUNNING during that poll; keys: { {w.alias(k): v for k, v in keys.items()} }"})
        if not sim.abort_reason and not viol:
            # re-queued blocked invocations with reroute must not be stranded in CONCURRENCY_CONTROLLED
            for inv, evs in by_inv.items():
                if inv in info and evs and evs[-1]["status"] == "CONCURRENCY_CONTROLLED":
                    viol.append({"signature": f"C06/{stack}/blocked-outcome/stuck-concurrency-controlled", "message": f"{w.alias(inv)} stays CONCURRENCY_CONTROLLED (never re-queued)"})
        running_pairs = any(sum(1 for _, _, k in intervals.get(i, []) if k == "RUNNING") for i in invs)
        common.update(
            {
                "violations": viol,
                "nontrivial": same_pairs > 0 and (st.get("probe.blocked_final", 0) + st.get("probe.blocked_rerouted", 0) > 0 or running_pairs),
                "sample": {"stack": stack, "mode": mode, "key_arguments": list(key_args), "reroute": reroute, "runners": n_runners, "slots": slots, "policy": [policy, parg], "submissions": [[p, {k: v for k, v in kw.items()}] for p, kw in subs], "final": {w.alias(i): (by_inv[i][-1]["status"] if i in by_inv else None) for i in invs}},
            }
        )
        return common
