"""C19 -- sync development mode and distributed execution give the same outcome.

The same generated task program is executed three ways and compared with a
reference evaluator:
  sync    dev_mode_force_sync_tasks=True (plain execution, no simulator needed
          beyond the clock)
  mem     engine B: real ThreadRunner on the in-memory stack, virtual time
  sqlite  engine B: real ThreadRunner on the SQLite stack, virtual time
Programs: pure bodies over JSON-able specs, scripted retriable / non-retriable
raises per attempt, sub-tasks singly or as groups, plain / direct-task /
parallel direct-task flavours, max_retries and retry_for settings.

Oracle: same value or same exception type and args, same number of body
executions per program node; a body that keeps raising a retriable exception
runs exactly max_retries+1 times, success on attempt k runs k times, a
non-retriable exception fails after one execution.
"""

from __future__ import annotations

import hashlib
import os
import random
import sys
from typing import Any

from simkit import apps as _apps
from simkit import core
from workloads import gen, simtasks
from workloads.deploy import Deployment

PROPERTY = "C19"
LEVEL = "exploration"
ENGINES = ["A", "B"]
TECHNIQUE = "deterministic simulation: one generated program executed in sync mode and through the real ThreadRunner on both stacks in virtual time under a fair seeded schedule; differential oracle + reference evaluator"
LEVEL_TEXT = (
    "Every run generates one program (tree of nodes with scripted failures) and a task configuration, executes it in dev sync mode and "
    "distributed on the in-memory and the SQLite stack with the real ThreadRunner (virtual time, fair seeded schedule), and compares value "
    "or exception (type and args) and executions per node across the three modes and against a small reference evaluator of the documented "
    "retry rules. Programs and configurations are sampled."
)
LEVEL_NOTE = "Trusted: the reference evaluator (workloads/gen.py: expected), simkit scheduler; distributed runs use 3 slots so that sub-task waiting never starves (C09 owns slot exhaustion). Exceptions are compared by type and args."
MINIMIZE = None
RULE = (
    "one run = program (depth <= 2, fan-out <= 2, failures on attempts 1..k with retriable / non-retriable kinds incl. strict subclasses of the retriable classes, groups) x flavour "
    "(plain / direct / direct-parallel) x max_retries in 0..2 x retry_for x schedule (rand / pct) x fault (none / one worker stall at its K-th yield / slow hand-over: a short stall before every effect inside one hand-over operation); non-trivial = the program has a failing node or a sub-task; "
    "distinct = hash of (program, options)."
)
ASSUMPTIONS = [
    "bodies are pure functions of the spec and of the per-node attempt counter kept by the harness",
    "when a kid fails, its exception is what the parent's body sees and (unless caught) what fails the parent",
    "when two or more members of one group fail, which exception surfaces is schedule-dependent in distributed execution (results are handed over in completion order): only the outcome class is compared for such programs",
    "execution counts are compared for bodies whose result is awaited; a sub-task launched but never awaited (a sibling after a failed one) runs 0 times in sync mode (evaluation on .result) and between 0 and its full count distributed: not compared",
]
REAL = ["Task._call / distribute_calls", "ConcurrentInvocation (sync retry loop)", "DistributedInvocation.run + set_invocation_retry", "app.direct_task wrappers", "ThreadRunner", "both stacks"]
STUBBED = ["clock", "thread scheduling", "uuid4"]
PROBES = ["worker_stalled", "subtask_of_other_task", "retry_exhausted", "retry_then_success", "non_retriable", "group", "direct", "direct_parallel", "nested"]


def plan(tier: str) -> list[dict]:
    q = tier == "quick"
    return [{"stratum": "programs", "runs": 320 if q else 10000, "params": {}, "chunk": 10 if q else 200}]


def warmup() -> None:
    run(0, {})


def _retriable_kinds(retry_for: str) -> tuple[str, ...]:
    return ("retry", "retry-sub", "retriable", "retriable-sub") if retry_for == "retriable" else ("retry", "retry-sub")


def _options(max_retries: int, retry_for: str) -> dict:
    o: dict[str, Any] = {"max_retries": max_retries}
    if retry_for == "retriable":
        o["retry_for"] = (simtasks.SimRetriable,)
    return o


def _describe(exc: BaseException) -> tuple:
    return ("exc", type(exc).__name__, exc.args)


def _expected_exc(kind: str, node: str, attempt: int) -> tuple:
    e = simtasks._make_exc(kind, node, attempt)
    return ("exc", type(e).__name__, e.args)


def _run_sync(seed: int, spec: dict, flavour: str, opts: dict) -> tuple[Any, dict]:
    sim = core.Sim(seed, threaded=False)
    core.activate(sim)
    try:
        app = _apps.make_app("mem", app_id="syncapp", dev_mode_force_sync_tasks=True)
        simtasks.reset()
        simtasks.GLOBAL_APP = app
        out = _call(app, spec, flavour, opts, lambda inv: inv.result)
        return out, dict(simtasks.ATTEMPTS)
    finally:
        simtasks.GLOBAL_APP = None
        core.deactivate()


def _wrappers(app: Any, opts: dict) -> dict[str, Any]:
    w = {
        "dprog": app.direct_task(simtasks.dprog, **opts),
        "dsum": app.direct_task(simtasks.dleaf, parallel_func=simtasks.dleaf_split, aggregate_func=sum, **opts),
    }
    simtasks.DIRECT[id(app)] = w
    return w


def _call(app: Any, spec: dict, flavour: str, opts: dict, get: Any) -> Any:
    try:
        if flavour == "plain":
            t = _apps.register(app, simtasks.prog, **opts)
            _apps.register(app, simtasks.prog2, **opts)
            return ("ok", get(t(spec)))
        w = _wrappers(app, opts)
        if flavour == "direct":
            return ("ok", w["dprog"](spec))
        return ("ok", w["dsum"](spec))
    except BaseException as e:  # noqa: BLE001
        if type(e).__name__ in ("SimCrash", "SimAbort"):
            raise
        return _describe(e)


def _run_dist(seed: int, stack: str, spec: dict, flavour: str, opts: dict) -> tuple[Any, dict, dict]:
    prng = random.Random(f"{seed}:c19sched:{stack}")
    # priority-based schedules (pct) starve one thread while the others make progress: a worker stalled between
    # two effects of its retry hand-over, with the next attempt running meanwhile, needs exactly that
    policy = prng.choice(["rand", "rand", "pct", "pct"])
    parg = {"rand": 0.2, "pct": prng.choice([1, 2, 3])}[policy]
    # fault: one worker thread stalls (descheduled / slow I/O) for a while at its K-th yield point; a stall is legal
    # behaviour and must not change outcome or execution counts
    stall_at = prng.randint(1, 60) if prng.random() < 0.6 else None
    stall_for = prng.choice([0.05, 0.3, 1.0])
    trace = ["orchestrator/base_orchestrator.py", "broker/mem_broker.py"] if (stack == "mem" and prng.random() < 0.5) else None
    with Deployment(seed, stack, 1, policy=policy, policy_arg=parg, max_steps=400_000, max_time=120.0, conf={"max_threads": 3}, trace_files=trace) as d:
        simtasks.reset()
        if stall_at is not None:
            cnt: dict[str, Any] = {"n": 0, "done": False, "stalls": 0}
            # "slow hand-over": every effect a worker performs inside one of the multi-step hand-over operations is
            # preceded by a short stall (so each window between two of its effects is held open once per run);
            # otherwise one long stall at the K-th yield of the workers
            slow_handover = prng.random() < 0.6
            place_fn = prng.choice(["set_invocation_retry", "set_invocation_retry", "set_invocation_retry", "reroute_invocations", "register_new_invocations", "set_invocation_exception", "set_invocation_result"])
            short = prng.choice([0.03, 0.1])
            if os.environ.get("C19_STALL"):  # debugging aid: "function:seconds"
                slow_handover = True
                place_fn, s_ = os.environ["C19_STALL"].split(":")
                short = float(s_)

            def inside(fn: str) -> bool:
                f = sys._getframe(2)
                for _ in range(40):
                    if f is None:
                        return False
                    if f.f_code.co_name == fn:
                        return True
                    f = f.f_back
                return False

            def hook(th: Any, kind_: str, detail: Any) -> None:
                if cnt["done"] or th.kind != "t" or not th.name.startswith("r1/") or kind_ not in ("sql", "line", "lock-acquire", "clock"):
                    return
                if slow_handover:
                    if cnt["stalls"] < 60 and inside(place_fn):
                        cnt["stalls"] += 1
                        if cnt["stalls"] == 1:
                            d.sim.bump("fault.worker_slow_handover")
                        d.sim.sleep(short)
                    return
                cnt["n"] += 1
                if cnt["n"] >= stall_at:
                    cnt["done"] = True
                    d.sim.bump("fault.worker_stall")
                    d.sim.sleep(stall_for)

            d.sim.fault_hook = hook
        res: dict[str, Any] = {}
        # register on every app object of the deployment
        for app in d.w.distinct_apps():
            if flavour == "plain":
                _apps.register(app, simtasks.prog, **opts)
                _apps.register(app, simtasks.prog2, **opts)
            else:
                _wrappers(app, opts)

        def client() -> None:
            from pynenc import context

            app = d.app("c")
            context.set_current_app(app)

            def get(inv: Any) -> Any:
                d.wait_final("c", [str(inv.invocation_id)], timeout=100.0)
                return inv.get_final_result()

            if flavour == "plain":
                t = app._tasks[next(k for k in app._tasks if k.func_name == "prog")]
                try:
                    res["out"] = ("ok", get(t(spec)))
                except BaseException as e:  # noqa: BLE001
                    if type(e).__name__ in ("SimCrash", "SimAbort"):
                        raise
                    res["out"] = _describe(e)
            else:
                w = simtasks.DIRECT[id(app)]
                try:
                    res["out"] = ("ok", w["dprog" if flavour == "direct" else "dsum"](spec))
                except BaseException as e:  # noqa: BLE001
                    if type(e).__name__ in ("SimCrash", "SimAbort"):
                        raise
                    res["out"] = _describe(e)
            # quiescence: every invocation that was launched reaches a final status
            d.wait_final("c", sorted({e["inv"] for e in d.w.tlog}), timeout=60.0)
            d.stop_runners()

        d.run({"c": client})
        for app in d.w.distinct_apps():
            simtasks.DIRECT.pop(id(app), None)
        common = d.w.result_common()
        if d.sim.abort_reason:
            res.setdefault("out", ("inconclusive", d.sim.abort_reason))
        return res.get("out"), dict(simtasks.ATTEMPTS), common


def run(seed: int, params: dict, replay: dict | None = None) -> dict:
    rng = random.Random(f"{seed}:c19")
    flavour = rng.choice(["plain", "plain", "direct", "dsum"])
    max_retries = rng.choice([0, 1, 2])
    retry_for = rng.choice(["default", "retriable"])
    names = gen.Names()
    excs = ("retry", "retriable", "sim", "value", "retry-sub", "retriable-sub")
    if flavour == "dsum":
        spec = {"n": names.next(), "v": 0, "kids": [gen.gen_prog(rng, names, depth=0, p_fail=0.35, excs=excs) for _ in range(rng.randint(1, 3))]}
    elif flavour == "direct":
        spec = gen.gen_prog(rng, names, depth=2, p_fail=0.3, excs=excs, allow_group=False)
        for n in gen.nodes(spec):
            n.pop("fail_after_kids", None)
    elif rng.random() < 0.4:
        # retry-heavy variant: small programs, most nodes fail more often than max_retries allows
        max_retries = rng.choice([1, 1, 2])
        spec = gen.gen_prog(rng, names, depth=1, p_fail=0.7, max_fail=3, excs=("retry", "retry", "retriable", "sim", "retry-sub", "retriable-sub"), two_tasks=True)
    else:
        spec = gen.gen_prog(rng, names, depth=2, p_fail=0.3, excs=excs, two_tasks=True)
    opts = _options(max_retries, retry_for)
    retriable = _retriable_kinds(retry_for)
    # reference
    if flavour == "dsum":
        lazy: dict[str, int] = {}
        eager: dict[str, int] = {}
        ref: Any = None
        total = 0
        for k in spec["kids"]:
            o, v, lz, eg = gen.expected(k, max_retries, retriable)
            for kk, vv in eg.items():
                eager[kk] = eager.get(kk, 0) + vv
            if ref is None:  # results are consumed in order: kids after a failed one are not awaited
                for kk, vv in lz.items():
                    lazy[kk] = lazy.get(kk, 0) + vv
            if o == "exc" and ref is None:
                ref = _expected_exc(*v)
            elif o == "ok":
                total += v
        n_failed = sum(1 for k in spec["kids"] if gen.expected(k, max_retries, retriable)[0] == "exc")
        ambiguous = n_failed >= 2
        ref = ref or ("ok", total)
    else:
        o, v, lazy, eager = gen.expected(spec, max_retries, retriable)
        ambiguous = bool(gen.EXPECTED_FLAGS.get("ambiguous"))
        ref = ("ok", v) if o == "ok" else _expected_exc(*v)
    viol: list[dict] = []
    stats: dict[str, int] = {}
    sync_out, sync_counts = _run_sync(seed, spec, flavour, opts)
    mem_out, mem_counts, mem_common = _run_dist(seed, "mem", spec, flavour, opts)
    sql_out, sql_counts, sql_common = _run_dist(seed, "sqlite", spec, flavour, opts)
    inconclusive = any(isinstance(o, tuple) and o and o[0] == "inconclusive" for o in (mem_out, sql_out))
    outs = {"sync": (sync_out, sync_counts), "mem": (mem_out, mem_counts), "sqlite": (sql_out, sql_counts)}
    nodes = gen.nodes(spec)
    failing = [n for n in nodes if n.get("fail")]
    for n in failing:
        k = len(n["fail"])
        kind = n.get("exc", "retry")
        if kind in retriable and k > max_retries:
            stats["probe.retry_exhausted"] = 1
        elif kind in retriable:
            stats["probe.retry_then_success"] = 1
        else:
            stats["probe.non_retriable"] = 1
    if any(n.get("group") for n in nodes):
        stats["probe.group"] = 1
    if flavour == "direct":
        stats["probe.direct"] = 1
    if flavour == "dsum":
        stats["probe.direct_parallel"] = 1
    if len(nodes) > 1:
        stats["probe.nested"] = 1
    if any(n.get("t") == 2 for n in nodes[1:]) and flavour == "plain":
        stats["probe.subtask_of_other_task"] = 1
    if not inconclusive:
        desc = f"program {spec} flavour={flavour} max_retries={max_retries} retry_for={retry_for}"
        names_all = sorted(set(lazy) | set(eager))
        for mode, (o, c) in outs.items():
            if ambiguous and mode != "sync":
                # several members of a group fail: the distributed group surfaces whichever
                # finishes first; only the outcome class is comparable
                if (o and o[0]) != ref[0]:
                    viol.append({"signature": f"C19/{mode}-vs-reference/outcome-class/{flavour}", "message": f"{mode} gave {o!r}, reference semantics {ref!r}; {desc}"})
                continue
            if o != ref:
                what = "value" if (o and o[0] == "ok" and ref[0] == "ok") else ("exception" if (o and o[0] == "exc" and ref[0] == "exc") else "outcome-class")
                viol.append({"signature": f"C19/{mode}-vs-reference/{what}/{flavour}", "message": f"{mode} gave {o!r}, reference semantics {ref!r}; {desc}"})
            # executions: awaited bodies exactly; bodies launched but never awaited (siblings after a
            # failed sub-task) run 0 times in sync mode and 0..n times distributed -- not compared
            bad = {}
            for k in names_all:
                lo, hi = lazy.get(k, 0), eager.get(k, 0)
                got = c.get(k, 0)
                if mode == "sync":
                    if got != lo:
                        bad[k] = (got, lo)
                elif not (lo <= got <= hi):
                    bad[k] = (got, (lo, hi))
            extra = {k: v for k, v in c.items() if k not in names_all}
            if bad or extra:
                viol.append({"signature": f"C19/{mode}-vs-reference/executions/{flavour}", "message": f"{mode} executed nodes (got, expected) {bad} {extra}; {desc}"})
        for a, b in (("sync", "mem"), ("sync", "sqlite"), ("mem", "sqlite")):
            if ambiguous:
                continue
            if outs[a][0] != outs[b][0]:
                viol.append({"signature": f"C19/{a}-vs-{b}/outcome/{flavour}", "message": f"{a}: {outs[a][0]!r}  {b}: {outs[b][0]!r}; {desc}"})
            diff = {k: (outs[a][1].get(k, 0), outs[b][1].get(k, 0)) for k in names_all if lazy.get(k, 0) == eager.get(k, 0) and outs[a][1].get(k, 0) != outs[b][1].get(k, 0)}
            if diff:
                viol.append({"signature": f"C19/{a}-vs-{b}/executions/{flavour}", "message": f"executions of awaited nodes differ ({a}, {b}): {diff}; {desc}"})
    key = repr((spec, flavour, max_retries, retry_for)).encode()
    for cm in (mem_common, sql_common):
        for k_, v_ in (cm.get("stats") or {}).items():
            if k_.startswith("fault."):
                stats[k_] = stats.get(k_, 0) + v_
    if stats.get("fault.worker_stall") or stats.get("fault.worker_slow_handover"):
        stats["probe.worker_stalled"] = stats.get("fault.worker_stall", 0) + stats.get("fault.worker_slow_handover", 0)
    return {
        "violations": viol,
        "stats": stats,
        "steps": mem_common["steps"] + sql_common["steps"],
        "sim_time": mem_common["sim_time"] + sql_common["sim_time"],
        "sched_hash": hashlib.sha256(key + str(mem_common.get("sched_hash")).encode() + str(sql_common.get("sched_hash")).encode()).hexdigest()[:16],
        "nontrivial": bool(failing) or len(nodes) > 1,
        "inconclusive": inconclusive,
        "sample": {"program": spec, "flavour": flavour, "max_retries": max_retries, "retry_for": retry_for, "reference": repr(ref), "executions_awaited": lazy, "executions_all_launched": eager},
        "digest": hashlib.sha256(key + repr(sorted(outs.items(), key=lambda kv: kv[0])).encode() + mem_common["digest"].encode() + sql_common["digest"].encode()).hexdigest(),
    }
