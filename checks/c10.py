"""C10 -- the recorded history of an invocation is exactly its sequence of status changes.

Engine B, riding on the scenarios of the other concurrent checks, with the
asynchronous history writers scheduled as independent threads that may run
arbitrarily late (`lazy_kinds`: a history writer is only picked when nothing
else can run, with a small escape probability):

  poll     the C02 scenario: concurrent pollers, duplicates, blocking priority,
           a third party issuing kill / recovery transitions + reroutes
  deploy   the real ThreadRunner loop executing generated programs: retries,
           failures, sub-tasks, concurrency-control reroutes, kill-and-reroute
           on an early stop

Oracle after every thread has finished (= after the flush): per invocation the
stored history and the transition log are equal as multisets of (status, owner,
time of change, writing runner); ordered by the time of the change it is a
lifecycle path from REGISTERED to the current status; no foreign entries.
"""

from __future__ import annotations

import random
from typing import Any

from checks import c02
from models.lifecycle import Lifecycle
from workloads import gen, simtasks
from workloads.deploy import Deployment, check_history

PROPERTY = "C10"
LEVEL = "exploration"
ENGINES = ['B']
TECHNIQUE = 'deterministic simulation with seeded schedule search and late-writer bias: history writers are independently scheduled threads; oracle = stored history vs transition log'
LEVEL_TEXT = "Rides on the C02 poll scenarios and on real ThreadRunner deployments (retries, failures, sub-tasks, concurrency-control reroutes, kill-and-reroute on early stop). History writer threads are simulated threads that the scheduler keeps back ('arbitrarily late') in two thirds of the runs. After every thread has finished the stored history of every invocation must equal the log of successful atomic transitions (multiset on status, owner, change time, writing runner), be a lifecycle path when ordered by change time, end at the current status and contain no foreign entry."
LEVEL_NOTE = 'Trusted: the transition log taken at _atomic_status_transition/_register_new_invocations (instance-level wrappers), simkit scheduler, reference lifecycle. Simulated timestamps are unique, so the SQLite history primary key never collides (real-clock collisions are out of reach).'
MINIMIZE = "schedule"
RULE = (
    "poll: the C02 scenarios (seeded pollers / duplicates / meddler) with late history writers (in memory pre-empted at line level inside the state backend); deploy: 1-2 ThreadRunners "
    "executing 1-3 generated programs (depth <= 2, retries, failures, groups) with an optional early stop that kills and reroutes. "
    "Non-trivial = at least one history writer ran after a later status change of the same invocation had already been made, or a "
    "kill / retry / reroute / recovery transition occurred; distinct = distinct hash of context-switch sites."
)
ASSUMPTIONS = [
    "the order claimed is by the status record's own timestamp (time of the change), not by the history row's write time",
    "flush = every history writer thread has finished (wait_for_all_async_operations joins exactly these threads)",
]
REAL = ["BaseStateBackend.add_history/add_histories + writer threads", "Mem/SQLite state backend history storage", "orchestrators", "ThreadRunner loop", "DistributedInvocation.run"]
STUBBED = ["thread scheduling (writers forced late)", "clock", "uuid4"]
PROBES = ["late_writer", "kill", "retry", "reroute", "recovery"]

_LC: Lifecycle | None = None


def lc() -> Lifecycle:
    global _LC
    if _LC is None:
        _LC = Lifecycle()
    return _LC


def plan(tier: str) -> list[dict]:
    q = tier == "quick"
    return [
        {"stratum": "poll-sqlite", "runs": 200 if q else 8000, "params": {"mode": "poll", "stack": "sqlite"}, "chunk": 25 if q else 250},
        {"stratum": "poll-mem", "runs": 200 if q else 8000, "params": {"mode": "poll", "stack": "mem"}, "chunk": 25 if q else 250},
        {"stratum": "deploy-sqlite", "runs": 96 if q else 4000, "params": {"mode": "deploy", "stack": "sqlite"}, "chunk": 6 if q else 125},
        {"stratum": "deploy-mem", "runs": 160 if q else 8000, "params": {"mode": "deploy", "stack": "mem"}, "chunk": 10 if q else 250},
    ]


def warmup() -> None:
    run(0, {"mode": "poll", "stack": "sqlite"})
    run(0, {"mode": "poll", "stack": "mem"})
    run(0, {"mode": "deploy", "stack": "mem"})


def _oracle(w: Any) -> list[dict]:
    out = []
    stats = w.sim.stats
    # probe: a writer that ran after a later change of the same invocation
    ends = {ev[3]: ev[0] for ev in w.sim.log if ev[2] == "thread-end"}
    for e in w.tlog:
        if e["status"] in ("KILLED",):
            stats["probe.kill"] = stats.get("probe.kill", 0) + 1
        if e["status"] == "RETRY":
            stats["probe.retry"] = stats.get("probe.retry", 0) + 1
        if e["status"] == "REROUTED":
            stats["probe.reroute"] = stats.get("probe.reroute", 0) + 1
        if e["status"].endswith("_RECOVERY"):
            stats["probe.recovery"] = stats.get("probe.recovery", 0) + 1
    starts = [ev for ev in w.sim.log if ev[2] == "thread-start" and "/h" in str(ev[3])]
    trans = [ev for ev in w.sim.log if ev[2] == "transition"]
    for ev in starts:
        end = ends.get(ev[3])
        if end is None:
            continue
        if any(ev[0] < t[0] < end for t in trans):
            stats["probe.late_writer"] = stats.get("probe.late_writer", 0) + 1
    for sig, msg in check_history(w, lc(), w.distinct_apps()):
        out.append({"signature": f"C10/{w.stack}/{sig}", "message": msg})
    return out


HIST_TRACE = ["state_backend/base_state_backend.py", "state_backend/mem_state_backend.py"]


def run(seed: int, params: dict, replay: dict | None = None) -> dict:
    if params["mode"] == "poll":
        # in memory the history writers are pre-empted inside the state backend too (line level)
        res = c02.run(seed, {"stack": params["stack"]}, replay, extra_oracle=_oracle, lazy_history=(seed % 3 != 0), trace_extra=HIST_TRACE)
        st = res["stats"]
        res["nontrivial"] = bool(st.get("probe.late_writer") or st.get("probe.kill") or st.get("probe.recovery") or st.get("probe.reroute"))
        return res
    return _run_deploy(seed, params["stack"], replay)


def _run_deploy(seed: int, stack: str, replay: dict | None) -> dict:
    from pynenc.conf.config_task import ConcurrencyControlType

    rng = random.Random(f"{seed}:c10")
    n_runners = rng.choice([1, 1, 2]) if stack == "sqlite" else 1
    policy = rng.choice(["rand", "rand", "pct"])
    parg = {"rand": rng.choice([0.1, 0.3]), "pct": rng.choice([1, 2, 3])}[policy]
    max_retries = rng.choice([0, 1, 2])
    n_roots = rng.randint(1, 3)
    flat = rng.random() < 0.5
    early_stop = flat and rng.random() < 0.6
    names = gen.Names()
    roots = [gen.gen_prog(rng, names, depth=0 if flat else 2, work=(0.0, 0.02, 0.05) if early_stop else (0.0, 0.01)) for _ in range(n_roots)]
    keyed_jobs = rng.randint(0, 3) if rng.random() < 0.4 else 0
    schedule = replay.get("schedule") if replay else None
    with Deployment(seed, stack, n_runners, policy=policy, policy_arg=parg, schedule=schedule, max_steps=120_000, max_time=120.0, conf={"max_threads": rng.choice([1, 2, 3])}) as d:
        sim = d.sim
        if seed % 3 != 0:
            sim.lazy_kinds = {"h"}
        d.register(simtasks.prog, max_retries=max_retries)
        d.register(simtasks.keyed, running_concurrency=ConcurrencyControlType.KEYS, key_arguments=("key",), reroute_on_concurrency_control=True)
        submitted: list[str] = []

        def client() -> None:
            t = d.task("c", "prog")
            for r in roots:
                submitted.append(str(t(r).invocation_id))
            kt = d.task("c", "keyed")
            for j in range(keyed_jobs):
                submitted.append(str(kt(j % 2, j, 0.03).invocation_id))
            if early_stop:
                sim.sleep(rng.choice([0.005, 0.02, 0.04, 0.08]))
            else:
                d.wait_final("c", submitted, timeout=60.0)
            d.stop_runners()

        d.run({"c": client})
        w = d.w
        common = w.result_common()
        viol = []
        if sim.abort_reason:
            common["inconclusive"] = True
        else:
            viol = _oracle(w)
        st = common["stats"]
        st.update({k: v for k, v in sim.stats.items() if k.startswith("probe.")})
        common.update(
            {
                "violations": viol,
                "nontrivial": bool(st.get("probe.late_writer") or st.get("probe.kill") or st.get("probe.retry") or st.get("probe.reroute")),
                "sample": {"stack": stack, "runners": n_runners, "policy": [policy, parg], "max_retries": max_retries, "early_stop": early_stop, "roots": roots, "keyed_jobs": keyed_jobs, "transitions": len(w.tlog)},
            }
        )
        return common
