"""C02 -- an invocation is held by at most one runner at a time.

Engine B.  2-4 runner actors poll `get_invocations_to_run` over a small queue
that contains duplicate ids and blocking-priority entries, then execute what
they were given (inline or in worker threads).  SQLite stack: every actor has
its own Pynenc object on one database file, pre-emption between any two SQL
statements.  In-memory stack: one shared Pynenc object, pre-emption between
any two source lines of the orchestrator / broker / invocation modules.

Oracle (over the transition log, ordered by the records' own timestamps):
  * per invocation the successful status writes are a path of the documented
    lifecycle *including ownership* (two claims from one available state show
    up as PENDING -> PENDING);
  * every id a runner was handed corresponds to exactly one claim by it;
  * body executions of one invocation never overlap unless a kill / recovery
    transition lies between them.
"""

from __future__ import annotations

import random
from typing import Any

from models.lifecycle import Lifecycle
from simkit.world import World, check_transition_paths
from workloads import simtasks

PROPERTY = "C02"
LEVEL = "exploration"
ENGINES = ['B']
TECHNIQUE = 'deterministic simulation with seeded schedule search: baton-scheduled pollers/workers, pre-emption at SQL statements (SQLite) and source lines (memory), transition-log oracle'
LEVEL_TEXT = "2-4 simulated runner processes poll one store concurrently (queues with duplicate ids and blocking-priority entries) under seeded rand / pct / round-robin schedules; a pre-emption can land between any two SQL statements of different processes, or between any two source lines of the in-memory orchestrator/broker. The oracle replays every invocation's successful status writes (ordered by their own timestamps) against the documented lifecycle with ownership, matches hand-outs to claims, and checks body executions for overlap. Sampling of schedules, not enumeration; coverage is reported as distinct switch-site sequences."
LEVEL_NOTE = 'Trusted: simkit scheduler and SQLite seam (busy timeout replaced by simulator wake-up), source-line (not bytecode) granularity in memory, library code between yield points atomic, reference lifecycle.'
MINIMIZE = "schedule"
RULE = (
    "one run = one seeded scenario (2-4 pollers, 1-4 invocations, 0-3 duplicate queue entries, optional blocking-priority edge, "
    "poll size 1-3, 1-2 rounds, inline or threaded workers, optional third party issuing kill / recovery transitions) under one "
    "seeded schedule (rand / pct / rr policies; pre-emption at SQL statements on SQLite, at source lines in memory). Non-trivial = "
    "at least one context switch landed between the queue pop and the claim of some poll or inside an atomic status transition; "
    "distinct = distinct hash of the sequence of context-switch sites."
)
ASSUMPTIONS = [
    "status writes are ordered by the record's own timestamp (simulated clock: unique, assigned inside the atomic section)",
    "library code between two yield points (sqlite3 C code, json) is atomic",
    "in-memory pre-emption granularity is the source line, not the bytecode",
]
REAL = ["BaseOrchestrator.get_invocations_to_run", "Mem/SQLite orchestrator atomic transitions", "Mem/SQLite broker", "DistributedInvocation.run", "state backends", "status.py", "SQLite engine"]
STUBBED = ["thread / process scheduling", "clock", "uuid4", "busy handler"]
PROBES = ["claim_race_lost", "switch_between_pop_and_claim", "db_busy_wait", "duplicate_popped_after_claim", "blocking_priority_claim", "recovery_raced_with_owner"]

_LC: Lifecycle | None = None


def lc() -> Lifecycle:
    global _LC
    if _LC is None:
        _LC = Lifecycle()
    return _LC


def plan(tier: str) -> list[dict]:
    q = tier == "quick"
    return [
        {"stratum": "sqlite", "runs": 480 if q else 20000, "params": {"stack": "sqlite"}, "chunk": 30 if q else 250},
        {"stratum": "mem-lines", "runs": 480 if q else 20000, "params": {"stack": "mem"}, "chunk": 30 if q else 250},
    ]


def warmup() -> None:
    run(0, {"stack": "sqlite"})
    run(0, {"stack": "mem"})


MEM_TRACE = ["orchestrator/base_orchestrator.py", "orchestrator/mem_orchestrator.py", "broker/mem_broker.py", "invocation/dist_invocation.py"]


def run(seed: int, params: dict, replay: dict | None = None, extra_oracle: Any = None, lazy_history: bool = False, trace_extra: list[str] | None = None) -> dict:
    """extra_oracle(world) -> [violation dicts]: lets C10 ride on this scenario
    (only the extra oracle's findings are reported then)."""
    from pynenc.invocation.status import InvocationStatus
    from pynenc.runner.runner_context import RunnerContext

    stack = params["stack"]
    rng = random.Random(f"{seed}:c02")
    n_runners = rng.choice([2, 2, 2, 3, 4])
    policy = rng.choice(["rand", "rand", "pct", "rr"])
    parg = {"rand": rng.choice([0.1, 0.25, 0.5]), "pct": rng.choice([1, 2, 3]), "rr": rng.choice([1, 2, 3, 5])}[policy]
    n_inv = rng.randint(1, 4)
    n_dup = rng.randint(0, 3)
    blocking = rng.random() < 0.35 and n_inv >= 2
    poll_k = rng.randint(1, 3)
    rounds = rng.randint(1, 2)
    threaded_workers = rng.random() < 0.4
    meddler = rng.random() < 0.3  # third party: kill / recovery transitions
    runners = [f"r{i + 1}" for i in range(n_runners)]
    actors = runners + (["m"] if meddler else [])
    schedule = replay.get("schedule") if replay else None
    viol: list[dict] = []
    with World(
        seed,
        stack,
        actors,
        policy=policy,
        policy_arg=parg,
        schedule=schedule,
        trace_files=(MEM_TRACE + list(trace_extra or [])) if stack == "mem" else None,
        max_steps=40000 if not trace_extra else 80000,
        conf={"cached_status_time": 0.0},
    ) as w:
        sim = w.sim
        if lazy_history:
            sim.lazy_kinds = {"h"}
        tasks = w.register(simtasks.add)
        first = runners[0]
        app0 = w.apps[first]
        invs = [tasks[first](i, 100) for i in range(n_inv)]
        ids = [str(i.invocation_id) for i in invs]
        for _ in range(n_dup):
            app0.broker.route_invocation(rng.choice(ids))
        if blocking:
            app0.orchestrator.waiting_for_results(ids[0], [ids[1]])
        handed: list[tuple[str, str]] = []

        def runner_main(name: str) -> Any:
            app = w.apps[name]
            ctx = RunnerContext(runner_cls="SimRunner", runner_id=name)

            def work(inv: Any) -> None:
                try:
                    inv.run(ctx)
                except Exception as e:  # noqa: BLE001  task errors are not expected here
                    w.observe("run-raised", f"{name}:{type(e).__name__}:{e}")

            def main() -> None:
                workers = []
                for _ in range(rounds):
                    sw0 = len(sim.switch_sites)
                    try:
                        got = list(app.orchestrator.get_invocations_to_run(poll_k, ctx))
                    except Exception as e:  # noqa: BLE001
                        w.observe("poll-raised", f"{name}:{type(e).__name__}:{e}")
                        got = []
                    if len(sim.switch_sites) > sw0:
                        sim.bump("probe.switch_between_pop_and_claim")
                    for inv in got:
                        handed.append((name, str(inv.invocation_id)))
                        sim.log_event("handed", (name, w.alias(str(inv.invocation_id))))
                    for inv in got:
                        if threaded_workers:
                            from simkit.core import SimThread

                            t = SimThread(target=work, args=(inv,))
                            t.start()
                            workers.append(t)
                        else:
                            work(inv)
                for t in workers:
                    t.join()

            return main

        def meddler_main() -> None:
            app = w.apps["m"]
            ctx = RunnerContext(runner_cls="SimRunner", runner_id="m")
            for _ in range(rng.randint(1, 3)):
                sim.sleep(rng.choice([0.0005, 0.002, 0.01]))
                target = rng.choice(ids)
                st = rng.choice([InvocationStatus.PENDING_RECOVERY, InvocationStatus.RUNNING_RECOVERY, InvocationStatus.KILLED, InvocationStatus.RUNNING, InvocationStatus.SUCCESS])
                try:
                    app.orchestrator.set_invocation_status(target, st, ctx)
                    if st in (InvocationStatus.PENDING_RECOVERY, InvocationStatus.RUNNING_RECOVERY):
                        sim.bump("probe.recovery_raced_with_owner")
                        app.orchestrator.reroute_invocations({target}, ctx)
                except Exception:  # noqa: BLE001  refusals are the expected outcome
                    pass

        mains = [(r, "main", runner_main(r)) for r in runners]
        if meddler:
            mains.append(("m", "main", meddler_main))
        w.run(mains)
        common = w.result_common()
        st = common["stats"]
        st["probe.db_busy_wait"] = st.get("sql.busy_wait", 0)
        if sim.abort_reason:
            common["inconclusive"] = True
        for n, e in sim.thread_exceptions:
            viol.append({"signature": f"C02/thread-died/{type(e).__name__}", "message": f"{n}: {type(e).__name__}: {e}"})
        # (1) owned path
        for sig, msg in check_transition_paths(w.tlog, lc()):
            viol.append({"signature": f"C02/{stack}/{sig}", "message": msg})
        # (2) handed == claimed
        claims: dict[tuple[str, str], int] = {}
        for e in w.tlog:
            if e["status"] == "PENDING":
                claims[(e["requester"], e["inv"])] = claims.get((e["requester"], e["inv"]), 0) + 1
        hcount: dict[tuple[str, str], int] = {}
        for k in handed:
            hcount[k] = hcount.get(k, 0) + 1
        if not sim.abort_reason:
            for k in set(claims) | set(hcount):
                if k[0] == "m":
                    continue
                if claims.get(k, 0) != hcount.get(k, 0):
                    viol.append({"signature": f"C02/{stack}/handed-vs-claimed", "message": f"runner {k[0]} was handed {w.alias(k[1])} {hcount.get(k, 0)}x but claimed it {claims.get(k, 0)}x"})
        n_pending_by_inv: dict[str, int] = {}
        for (r, i), c in claims.items():
            n_pending_by_inv[i] = n_pending_by_inv.get(i, 0) + c
        for e in w.events:
            # a poll or a run that raises is not what C02 is about (C06 / C08 are):
            # counted as a probe, never reported here
            if e[1] == "poll-raised":
                st["probe.poll_raised"] = st.get("probe.poll_raised", 0) + 1
            if e[1] == "run-raised":
                st["probe.run_raised"] = st.get("probe.run_raised", 0) + 1
        # (3) body overlap
        open_body: dict[str, dict] = {}
        for b in w.body:
            if b["ev"] == "enter":
                if b["inv"] in open_body:
                    o = open_body[b["inv"]]
                    between = [e for e in w.tlog if e["inv"] == b["inv"] and o["seq"] < e["seq"] <= b["seq"] and e["status"] in ("KILLED", "PENDING_RECOVERY", "RUNNING_RECOVERY")]
                    if not between:
                        viol.append({"signature": f"C02/{stack}/body-overlap", "message": f"{w.alias(b['inv'])}: body entered by {b['thread']} while still executing in {o['thread']} and no kill/recovery in between"})
                open_body[b["inv"]] = b
            elif b["ev"] == "exit":
                open_body.pop(b["inv"], None)
        # probes
        st["probe.claim_race_lost"] = sum(1 for r in w.refused if r["status"] == "PENDING" and r["requester"] != "m")
        st["probe.blocking_priority_claim"] = 1 if blocking and any(e["status"] == "PENDING" and e["inv"] == ids[1] for e in w.tlog) else 0
        st["probe.duplicate_popped_after_claim"] = 1 if n_dup and any(c >= 1 for c in n_pending_by_inv.values()) else 0
        if extra_oracle is not None:
            viol = [] if sim.abort_reason else list(extra_oracle(w))
            st.update({k: v for k, v in sim.stats.items() if k.startswith("probe.")})
        common.update(
            {
                "violations": viol,
                "nontrivial": st.get("probe.switch_between_pop_and_claim", 0) > 0,
                "states": sorted({hash(tuple(sorted((w.alias(e["inv"]), e["status"]) for e in w.tlog[:k]))) & 0xFFFFFFFF for k in range(0, len(w.tlog) + 1, 2)}),
                "sample": {
                    "stack": stack,
                    "runners": n_runners,
                    "policy": [policy, parg],
                    "invocations": n_inv,
                    "duplicates": n_dup,
                    "blocking_edge": blocking,
                    "poll_k": poll_k,
                    "rounds": rounds,
                    "threaded_workers": threaded_workers,
                    "meddler": meddler,
                    "transitions": [[w.alias(e["inv"]), e["status"], e["requester"]] for e in sorted(w.tlog, key=lambda e: e["ts"])][:24],
                    "handed": [[r, w.alias(i)] for r, i in handed],
                },
            }
        )
        return common
