"""C17 -- applications with different ids are fully isolated, for any id string.

Engine A: 2-3 applications with adversarial ids share one SQLite database file
(and, in the second stratum, one process with the in-memory components);
operations (submit, run, emit event, store external data, purge of each
component, purge of the whole app) are interleaved on the apps.

Oracle: the full read-out of every *other* app (queue content and order,
status records, results, histories, trigger conditions, stored data) and the
row counts of its tables are unchanged by any operation on app A; no SQL error;
distinct ids never share a table.
"""

from __future__ import annotations

import hashlib
import re
from typing import Any

from simkit import apps as apps_mod
from simkit import core, readout
from workloads import simtasks

PROPERTY = "C17"
LEVEL = "exploration"
ENGINES = ["A"]
TECHNIQUE = "deterministic simulation (sequential engine): adversarially generated application ids, seeded interleaved operation and purge sequences on apps sharing one real SQLite file / one process; oracle = read-out and table row counts of the other apps unchanged"
LEVEL_TEXT = (
    "Each run draws 2-3 ids from an adversarial generator (punctuation and case variants, prefixes of one another, ids shaped like another "
    "id's '<sanitised>_<hash>__<component>' table prefix, quotes, semicolons, LIKE wildcards, unicode, blank, leading digits), builds real "
    "Pynenc objects on one SQLite file (or in one process for the in-memory family) and interleaves 15-50 operations including every purge; "
    "after every operation on one app the others' complete read-out and table row counts must be unchanged. Ids and sequences are sampled."
)
LEVEL_NOTE = "Trusted: simkit.readout (public APIs + read-only queue peek + sqlite_master row counts). Injectivity and SQL-safety of the naming scheme over all strings is sampled, not proved."
MINIMIZE = None
RULE = (
    "one run = 2-3 adversarial ids (incl. ids equal to another id's bare or component storage prefix) x local LRU size {1, 2, 1024} x 15-50 operations (submit, run, event, store of unique or app-shared content, purge-broker/orchestrator/state/trigger/client-data/app); "
    "non-trivial = at least one purge was executed while another app held data; distinct = hash of ids + op sequence."
)
ASSUMPTIONS = ["'unchanged' is judged on the read-out of simkit.readout.snapshot plus per-table row counts; monitor-side caches are not part of it"]
REAL = ["sqlite_utils.sanitize_table_prefix / TableNames / delete_tables_with_prefix", "all SQLite components", "all in-memory components", "app.purge"]
STUBBED = ["clock", "uuid4"]
PROBES = ["purge_with_foreign_data", "prefix_shaped_id", "case_variant_pair", "punctuation_variant_pair", "sql_metacharacters", "same_content_stored"]


def plan(tier: str) -> list[dict]:
    q = tier == "quick"
    return [
        {"stratum": "sqlite", "runs": 96 if q else 6000, "params": {"stack": "sqlite"}, "chunk": 6 if q else 150},
        {"stratum": "mem", "runs": 64 if q else 3000, "params": {"stack": "mem"}, "chunk": 8 if q else 150},
    ]


def warmup() -> None:
    run(0, {"stack": "sqlite"})
    run(0, {"stack": "mem"})


def _prefix_of(app_id: str) -> str:
    """Independent re-statement of the naming scheme (for generating look-alike ids only)."""
    s = re.sub(r"[^a-zA-Z0-9_]", "_", app_id)
    if s and s[0].isdigit():
        s = "_" + s
    s = s or "_default"
    return f"{s}_{hashlib.sha256(app_id.encode()).hexdigest()[:8]}"


def gen_ids(rng: Any, stats: dict) -> list[str]:
    base = rng.choice(["app", "my-app", "a", "shop.eu", "x1", "Team A", "ü", "1st"])
    kind = rng.choice(["punct", "case", "prefixlike", "meta", "prefix-of", "blank", "random"])
    if kind == "punct":
        ids = [base, re.sub(r"[^a-zA-Z0-9]", "_", base) if re.search(r"[^a-zA-Z0-9]", base) else base + "-1", base.replace("-", ".") + "!"]
        stats["probe.punctuation_variant_pair"] = 1
    elif kind == "case":
        ids = [base, base.upper(), base.capitalize() + " "]
        stats["probe.case_variant_pair"] = 1
    elif kind == "prefixlike":
        comp = rng.choice(["broker", "orchestrator", "state_backend", "trigger", "client"])
        # shaped like a component prefix of `base`, or exactly like its bare storage prefix '<sanitised>_<hash>'
        ids = [base] + rng.sample([f"{_prefix_of(base)}__{comp}_x", f"{_prefix_of(base)}__{comp}", _prefix_of(base), _prefix_of(base).lower()], 2)
        stats["probe.prefix_shaped_id"] = 1
    elif kind == "meta":
        ids = [base, base + "'; DROP TABLE x;--", base + '"%_', "%", "_"]
        stats["probe.sql_metacharacters"] = 1
    elif kind == "prefix-of":
        ids = [base, base + "_", base + "__broker", base[:1]]
    elif kind == "blank":
        ids = [base, " ", "  ", "\t"]
    else:
        ids = [base, base + str(rng.randint(0, 9)), "".join(rng.choice("aA_-. %'\"") for _ in range(rng.randint(1, 6)))]
    out = []
    for i in ids:
        if i not in out:
            out.append(i)
    rng.shuffle(out)
    return out[: rng.choice([2, 3])] if len(out) >= 2 else out + [base + "2"]


def run(seed: int, params: dict, replay: dict | None = None) -> dict:
    from pynenc.runner.runner_context import RunnerContext
    from pynenc.trigger.trigger_builder import on_event

    stack = params["stack"]
    viol: list[dict] = []
    stats: dict[str, int] = {}
    trace: list = []
    sim = core.Sim(seed, threaded=False, delta=0.0)
    core.activate(sim)
    apps_mod.reset_thread_context()
    db = apps_mod.fresh_db() if stack == "sqlite" else None
    apps: list[Any] = []
    try:
        rng = sim.rng_work
        ids = gen_ids(rng, stats)
        # a small local LRU makes reads go to the stored copy (a large one hides whatever happens to it)
        lru = rng.choice([1, 1, 2, 1024])
        ctx = RunnerContext(runner_cls="SimRunner", runner_id="r1")
        tasks = []
        for app_id in ids:
            try:
                app = apps_mod.make_app(stack, app_id=app_id, db_path=db, min_size_to_cache=64, local_cache_size=lru)
                apps_mod.instantiate_all(app)
            except Exception as e:  # noqa: BLE001
                viol.append({"signature": f"C17/{stack}/cannot-create-app/{type(e).__name__}", "message": f"app id {app_id!r}: {type(e).__name__}: {e}"})
                continue
            apps.append(app)
            t = apps_mod.register(app, simtasks.add, triggers=on_event("evt"))
            app.register_deferred_triggers()
            tasks.append(t)
        if len(apps) < 2:
            raise RuntimeError("need two apps")
        if stack == "sqlite":
            prefixes = [a.broker.tables.table_prefix.rsplit("__", 1)[0] for a in apps]
            if len(set(p.lower() for p in prefixes)) != len(prefixes):
                viol.append({"signature": "C17/sqlite/prefix-collision", "message": f"ids {ids!r} map to table prefixes {prefixes!r} (SQLite table names are case-insensitive)"})
        known: list[list[str]] = [[] for _ in apps]
        keys: list[list[str]] = [[] for _ in apps]
        purged_with_foreign = False

        def snap(j: int) -> dict:
            s = readout.snapshot(apps[j], known[j], keys[j])
            if stack == "sqlite":
                s["tables"] = readout.exact_table_counts(db, readout.own_tables(apps[j]))  # type: ignore[arg-type]
            return s

        n_ops = rng.randint(15, 50)
        for step in range(n_ops):
            sim.advance(0.001)
            a = rng.randrange(len(apps))
            app, t = apps[a], tasks[a]
            before = {j: snap(j) for j in range(len(apps)) if j != a}
            op = rng.choice(["submit", "submit", "run", "event", "store", "purge-broker", "purge-orchestrator", "purge-state", "purge-trigger", "purge-client", "purge-app"])
            try:
                if op == "submit":
                    known[a].append(str(t(step, a).invocation_id))
                elif op == "run":
                    for inv in list(app.orchestrator.get_invocations_to_run(1, ctx)):
                        inv.run(ctx)
                elif op == "event":
                    app.trigger.emit_event("evt", {"x": step})
                    app.trigger.trigger_loop_iteration()
                elif op == "store":
                    # half of the stored values are content another app may store as well (equal content = equal key)
                    shared = rng.random() < 0.5
                    if shared:
                        stats["probe.same_content_stored"] = stats.get("probe.same_content_stored", 0) + 1
                    keys[a].append(app.client_data_store.serialize("D" * 100 + (f"shared{rng.randrange(2)}" if shared else str(step))))
                else:
                    if any(known[j] for j in before):
                        purged_with_foreign = True
                        stats["probe.purge_with_foreign_data"] = stats.get("probe.purge_with_foreign_data", 0) + 1
                    if op == "purge-broker":
                        app.broker.purge()
                    elif op == "purge-orchestrator":
                        app.orchestrator.purge()
                    elif op == "purge-state":
                        app.state_backend.purge()
                    elif op == "purge-trigger":
                        app.trigger.purge()
                    elif op == "purge-client":
                        app.client_data_store.purge()
                    else:
                        app.purge()
            except Exception as e:  # noqa: BLE001
                import sqlite3

                if isinstance(e, sqlite3.Error):
                    viol.append({"signature": f"C17/{stack}/sql-error/{op}", "message": f"{op} on app {ids[a]!r} raised {type(e).__name__}: {e}"})
                # other errors (e.g. running an invocation whose record was purged) are app A's own business
            trace.append((op, a))
            for j, b in before.items():
                after = snap(j)
                d = readout.diff(b, after)
                if d:
                    comp = d[0].split("/")[1] if "/" in d[0] else "?"
                    viol.append({"signature": f"C17/{stack}/foreign-state-changed/{op}/{comp}", "message": f"{op} on app {ids[a]!r} changed app {ids[j]!r}: {d[:4]}; ids={ids!r}"})
        tr = repr((ids, trace)).encode()
        return {
            "violations": viol,
            "stats": stats,
            "steps": len(trace),
            "sim_time": round(sim.now - sim.epoch, 4),
            "sched_hash": hashlib.sha256(tr).hexdigest()[:16],
            "nontrivial": purged_with_foreign,
            "sample": {"stack": stack, "ids": ids, "ops": [list(map(str, t_)) for t_ in trace[:14]], "len": len(trace)},
            "digest": hashlib.sha256(tr + repr(sorted(v["signature"] for v in viol)).encode()).hexdigest(),
        }
    finally:
        core.deactivate()
        apps.clear()
        import gc

        gc.collect()
        if db:
            apps_mod.remove_db(db)
