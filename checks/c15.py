"""C15 -- arguments and results round-trip unchanged and call identity is canonical.

Partly a pure function of its input (identity encoding, call spellings): those
clauses are *sampled inside* the simulated runs and claimed at no more than
that.  What has state and parties is decided here with engine A: a client and a
worker party (separate Pynenc objects = separate processes on SQLite, one
process in memory) exchange generated values through state backend, client
data store and the per-process LRU cache, with the serializer, the
externalisation threshold, the LRU size and the disable options seeded per run.

Operations: submit (random spelling), mutate-the-original-after-submitting,
evict (fill the LRU), worker-read, client-read, run + read result,
re-serialise, identity pairs.

Oracle: the worker's kwargs and the client's result equal deep copies taken at
submission; equal content => equal reference and a reference resolves to the
content it was created from (also after the original object was mutated and
after eviction); all spellings of one call give one call id; for generated
pairs of argument dicts the identities are equal iff task and serialized
arguments are equal.
"""

from __future__ import annotations

import copy
import hashlib
import json
from typing import Any

from simkit.seq import SeqEnv
from workloads import simtasks, values

PROPERTY = "C15"
LEVEL = "exploration"
ENGINES = ["A"]
TECHNIQUE = "deterministic simulation (sequential engine, two parties): seeded submit / mutate / evict / read / run sequences through real stores and per-process LRU caches with generated values per serializer domain; pure identity clauses sampled alongside"
LEVEL_TEXT = (
    "Two parties (client, worker) with their own Pynenc objects on one SQLite file (one shared object in memory) exchange seeded values "
    "through the real state backend and client data store; thresholds straddle the value sizes so that inline and externalised paths, LRU "
    "hits, evictions and store reads all occur. The stateful clauses (round trip, content addressing under mutation / eviction) are the "
    "simulation's contribution; the pure clauses (spelling equivalence, identity equality iff serialized arguments equal, adversarial "
    "separators) are input sampling and are labelled as such."
)
LEVEL_NOTE = "Trusted: Python == on values inside each serializer's lossless domain (workloads/values.py), deep copies as ground truth. Injectivity of the identity encoding is sampled, not proved."
MINIMIZE = None
RULE = (
    "one run = stack x serializer x min_size_to_cache x local_cache_size x disable options x 10-30 operations (submit / read / run / evict / mutate / content addressing with near-collisions, adversarial identity pairs, purge by the other party); non-trivial = at least one "
    "value was externalised and read back both through the LRU and from the store; distinct = hash of configuration + op sequence."
)
ASSUMPTIONS = [
    "value equality is Python == inside the serializer's documented lossless domain; exceptions are compared by type and args",
    "the pure clauses (identity encoding, spellings) are sampled inputs, not simulation results",
    "'equal content' means equal serialised form: unordered containers (sets), whose equal instances may serialise in different orders, are not used in the content-addressing clause",
]
REAL = ["Arguments.from_call", "Call / LazyCall / compute_args_id", "BaseClientDataStore (size routing, content key, LRU)", "Mem/SQLite client data stores", "state backends (invocation DTOs, results)", "three serializers", "DistributedInvocation.run"]
STUBBED = ["clock", "uuid4", "history writer threads run inline"]
PROBES = ["externalised", "inline", "lru_hit", "store_read_after_eviction", "mutated_after_submit", "spellings_compared", "identity_pairs", "near_collision_pairs", "purge_by_other_party", "reserved_prefix_string"]

SERIALIZERS = ["JsonSerializer", "PickleSerializer", "JsonPickleSerializer"]


def plan(tier: str) -> list[dict]:
    q = tier == "quick"
    return [
        {"stratum": "mem", "runs": 160 if q else 8000, "params": {"stack": "mem"}, "chunk": 10 if q else 200},
        {"stratum": "sqlite", "runs": 128 if q else 6000, "params": {"stack": "sqlite"}, "chunk": 8 if q else 150},
    ]


def warmup() -> None:
    run(0, {"stack": "mem"})
    run(1, {"stack": "sqlite"})


def _mutate(rng: Any, v: Any) -> bool:
    if isinstance(v, list):
        v.append("MUTATED")
        return True
    if isinstance(v, dict):
        v["MUTATED"] = 1
        return True
    return False


def run(seed: int, params: dict, replay: dict | None = None) -> dict:
    from pynenc.arguments import Arguments
    from pynenc.call import Call, compute_args_id
    from pynenc.runner.runner_context import RunnerContext
    from simkit import apps as _apps

    stack = params["stack"]
    viol: list[dict] = []
    stats: dict[str, int] = {}
    trace: list = []

    def bump(k: str) -> None:
        stats[k] = stats.get(k, 0) + 1

    import random

    rng0 = random.Random(f"{seed}:c15conf")
    serializer = rng0.choice(SERIALIZERS)
    dom = values.domain_of(serializer)
    threshold = rng0.choice([32, 128, 512])
    lru = rng0.choice([1, 2, 4])
    disable_store = rng0.random() < 0.15
    disable_args = rng0.choice([(), (), ("a",), ("*",)])
    conf = {"serializer_cls": serializer, "min_size_to_cache": threshold, "local_cache_size": lru, "disable_client_data_store": disable_store}
    # two parties: on SQLite two Pynenc objects on one file, in memory one object
    from simkit import apps as apps_mod
    from simkit import core

    sim = core.Sim(seed, threaded=False, delta=0.0)
    core.activate(sim)
    apps_mod.reset_thread_context()
    db = apps_mod.fresh_db() if stack == "sqlite" else None
    try:
        client = apps_mod.make_app(stack, db_path=db, **conf)
        apps_mod.instantiate_all(client)
        if stack == "sqlite":
            worker = apps_mod.make_app(stack, db_path=db, **conf)
            apps_mod.instantiate_all(worker)
        else:
            worker = client
        t_c = _apps.register(client, simtasks.sig, disable_cache_args=disable_args)
        t_w = t_c if worker is client else _apps.register(worker, simtasks.sig, disable_cache_args=disable_args)
        ctx = RunnerContext(runner_cls="SimRunner", runner_id="w1")
        rng = sim.rng_work
        subs: list[dict] = []
        ext_seen = lru_hit = store_read = False
        desc_conf = f"{stack}/{serializer} threshold={threshold} lru={lru} disable_store={disable_store} disable_cache_args={disable_args}"

        def gen_args() -> dict:
            size = rng.choice([None, None, threshold // 3, threshold * 2])
            a = values.value(rng, dom, depth=2, size=size)
            if rng.random() < 0.04:
                a = "__pynenc__client_data__:" + "0" * 64  # a plain string that looks like a reference
                bump("probe.reserved_prefix_string")
            return {"a": a, "b": values.value(rng, dom, depth=1), "c": rng.choice([3, values.scalar(rng, dom)]), "d": rng.choice([None, values.value(rng, dom, depth=1)])}

        n_ops = rng.randint(10, 30)
        for step in range(n_ops):
            sim.advance(0.001)
            r = rng.random()
            if r < 0.3 or not subs:
                kw = gen_args()
                truth = copy.deepcopy(kw)
                # spellings of the same call
                spell = [
                    lambda: Arguments.from_call(simtasks.sig, kw["a"], kw["b"], c=kw["c"], d=kw["d"]),
                    lambda: Arguments.from_call(simtasks.sig, a=kw["a"], b=kw["b"], c=kw["c"], d=kw["d"]),
                    lambda: Arguments.from_call(simtasks.sig, kw["a"], d=kw["d"], c=kw["c"], b=kw["b"]),
                ]
                if kw["d"] is None:
                    spell.append(lambda: Arguments.from_call(simtasks.sig, kw["a"], kw["b"], c=kw["c"]))
                    if kw["c"] == 3 and type(kw["c"]) is int:
                        spell.append(lambda: Arguments.from_call(simtasks.sig, kw["a"], kw["b"]))
                try:
                    cids = {str(Call(t_c, s()).call_id) for s in spell}
                    bump("probe.spellings_compared")
                    if len(cids) != 1:
                        viol.append({"signature": f"C15/{stack}/spellings-differ/{serializer}", "message": f"spellings of one call give {len(cids)} call ids; kwargs {truth!r}; {desc_conf}"})
                    inv = t_c._call(rng.choice(spell)())
                except KeyError as e:
                    if isinstance(kw["a"], str) and kw["a"].startswith("__pynenc__client_data__"):
                        viol.append({"signature": f"C15/{stack}/reserved-prefix-string/submit", "message": f"a plain string argument beginning with the reserved reference prefix cannot be submitted: KeyError({e}); {desc_conf}"})
                        continue
                    raise
                sa = inv.call.serialized_arguments
                ext = {k for k, v in sa.items() if client.client_data_store.is_reference(v)}
                if ext:
                    ext_seen = True
                    bump("probe.externalised")
                else:
                    bump("probe.inline")
                subs.append({"id": str(inv.invocation_id), "kw": kw, "truth": truth, "ext": ext, "ran": False, "mutated": False})
                trace.append(("submit", len(subs) - 1, sorted(ext)))
            elif r < 0.4:
                s = rng.choice(subs)
                if _mutate(rng, s["kw"]["a"]):
                    s["mutated"] = True
                    bump("probe.mutated_after_submit")
                    trace.append(("mutate", subs.index(s)))
            elif r < 0.5:
                for j in range(lru + 1):
                    client.client_data_store.serialize("E" * (threshold + 10) + f"{step}.{j}")
                    worker.client_data_store.serialize("W" * (threshold + 10) + f"{step}.{j}")
                trace.append(("evict",))
            elif r < 0.75:
                s = rng.choice(subs)
                who, app = rng.choice([("worker", worker), ("client", client)])
                cache = app.client_data_store._deserialized_cache
                was_cached = any(v in cache for v in [app.state_backend.get_invocation(s["id"]).call.serialized_arguments.get(k) for k in s["ext"]])
                try:
                    got = app.state_backend.get_invocation(s["id"]).arguments.kwargs
                except KeyError as e:
                    kind = "reserved-prefix-string/read" if isinstance(s["truth"]["a"], str) and s["truth"]["a"].startswith("__pynenc__client_data__") else "argument-unresolvable"
                    viol.append({"signature": f"C15/{stack}/{kind}", "message": f"{who} cannot resolve the arguments of submission {subs.index(s)}: KeyError({e}); submitted {s['truth']!r}; {desc_conf}"})
                    continue
                if s["ext"]:
                    if was_cached:
                        lru_hit = True
                        bump("probe.lru_hit")
                    else:
                        store_read = True
                        bump("probe.store_read_after_eviction")
                if got != s["truth"]:
                    diff = {k: (got.get(k), s["truth"].get(k)) for k in s["truth"] if got.get(k) != s["truth"].get(k)}
                    kind = "lru-aliasing" if s["mutated"] and was_cached else "arguments-differ"
                    viol.append({"signature": f"C15/{stack}/{kind}/{who}/{serializer}", "message": f"{who} sees kwargs that differ from what was submitted (got, submitted): {repr(diff)[:400]}; mutated-after-submit={s['mutated']} served-from-lru={was_cached}; {desc_conf}"})
                trace.append(("read", who, subs.index(s)))
            elif r < 0.9:
                s = rng.choice(subs)
                if s["ran"]:
                    continue
                try:
                    inv = worker.state_backend.get_invocation(s["id"])
                    from pynenc.invocation.status import InvocationStatus

                    worker.orchestrator.set_invocation_status(inv.invocation_id, InvocationStatus.PENDING, ctx)
                    inv.run(ctx)
                    s["ran"] = True
                    res = client.state_backend.get_result(s["id"])
                except KeyError as e:
                    kind = "reserved-prefix-string/run" if isinstance(s["truth"]["a"], str) and s["truth"]["a"].startswith("__pynenc__client_data__") else "run-unresolvable"
                    viol.append({"signature": f"C15/{stack}/{kind}", "message": f"running submission {subs.index(s)} failed: KeyError({e}); {desc_conf}"})
                    s["ran"] = True
                    continue
                exp = [s["truth"]["a"], s["truth"]["b"], s["truth"]["c"], s["truth"]["d"]]
                if res != exp:
                    was_mut = s["mutated"]
                    kind = "lru-aliasing" if was_mut and worker is client else "result-differs"
                    viol.append({"signature": f"C15/{stack}/{kind}/result/{serializer}", "message": f"result of submission {subs.index(s)}: {repr(res)[:300]} != submitted values {repr(exp)[:300]}; mutated-after-submit={was_mut}; {desc_conf}"})
                trace.append(("run", subs.index(s)))
            else:
                # content addressing + identity pairs (pure clauses, sampled)
                v = values.value(rng, dom, depth=2, size=threshold * 2, sets=False)
                v2 = copy.deepcopy(v)
                k1 = client.client_data_store.serialize(v)
                k2 = worker.client_data_store.serialize(v2)
                if k1 != k2:
                    viol.append({"signature": f"C15/{stack}/equal-content-different-reference/{serializer}", "message": f"equal content serialised to different references {k1[:40]} / {k2[:40]}; {desc_conf}"})
                back = worker.client_data_store.resolve(k1)
                if back != v2:
                    viol.append({"signature": f"C15/{stack}/reference-resolves-to-other-content/{serializer}", "message": f"reference resolves to {repr(back)[:200]}, created from {repr(v2)[:200]}; {desc_conf}"})
                if worker is not client and rng.random() < 0.35:
                    # the other party purges the shared store; content serialised again afterwards must be stored again
                    # (a process-local cache entry does not prove that the shared store still has the blob)
                    bump("probe.purge_by_other_party")
                    client.client_data_store.purge()
                    subs.clear()  # the externalised arguments of earlier submissions are gone with the purge
                    k3 = worker.client_data_store.serialize(copy.deepcopy(v))
                    for who, app_ in (("client", client), ("worker", worker)):
                        try:
                            back3 = app_.client_data_store.resolve(k3)
                            if back3 != v2:
                                viol.append({"signature": f"C15/{stack}/reference-resolves-to-other-content/after-purge/{serializer}", "message": f"after a purge by the other party the {who} resolves a fresh reference to {repr(back3)[:120]}, created from {repr(v2)[:120]}; {desc_conf}"})
                        except Exception as e:  # noqa: BLE001
                            viol.append({"signature": f"C15/{stack}/reference-does-not-resolve/after-purge-by-other-party/{serializer}", "message": f"a value serialised after the other party purged the shared store got reference {k3[:50]} which the {who} cannot resolve: {type(e).__name__}: {str(e)[:120]}; {desc_conf}"})
                            break
                # near-collisions: long common prefix, different tail (a key derived from a prefix or a truncation collides)
                n_pre = rng.choice([threshold, threshold + rng.randint(1, 9), threshold * 2, 1024 + rng.randint(0, 7), 4096 + rng.randint(0, 7), 20000 + rng.randint(0, 7), 70000 + rng.randint(0, 7)])
                where_ = rng.choice(["tail", "tail", "middle", "head"])
                if where_ == "tail" and n_pre < 4000 and rng.random() < 0.5:
                    base = int("7" * n_pre)
                    near = [base * 10 + 1, base * 10 + 2]
                else:
                    # same length, one differing character at the head, in the middle or at the tail
                    pre = "".join(rng.choice("xy") for _ in range(8)) * (n_pre // 8 + 1)
                    pos = {"tail": n_pre - 1, "middle": n_pre // 2 + rng.randint(-3, 3), "head": rng.randint(0, 2)}[where_]
                    pos = max(0, min(n_pre - 1, pos))
                    near = [pre[:pos] + "A" + pre[pos + 1 : n_pre], pre[:pos] + "B" + pre[pos + 1 : n_pre]]
                if dom == "json" or isinstance(near[0], str):
                    bump("probe.near_collision_pairs")
                    nk = [client.client_data_store.serialize(x) for x in near]
                    for who, app_ in (("worker", worker), ("client", client)):
                        for x, k_ in zip(near, nk):
                            back_ = app_.client_data_store.resolve(k_)
                            if back_ != x:
                                viol.append({"signature": f"C15/{stack}/reference-resolves-to-other-content/near-collision/{serializer}", "message": f"two values of {n_pre} characters that differ in one character ({where_}) were stored; the {who} resolves the reference of {repr(x)[-12:]} to {repr(back_)[-12:]}; {desc_conf}"})
                # adversarial re-splittings: the same character stream cut differently into keys and values
                alpha = ["a", "b", "=", ";", '"', "\\", "1", ":", ",", " "]

                def piece(lo: int = 0) -> str:
                    return "".join(rng.choice(alpha) for _ in range(rng.randint(lo, 3)))

                for _ in range(6):
                    k_, v1_, v2_, k2_ = piece(1), piece(), piece(), piece(1)
                    sep = rng.choice(["", "=", ";", '"', '";"', '"="', '"="' + k2_, "=" + k2_ + ";"])
                    cand = [
                        ({k_: v1_ + v2_}, {k_ + v1_: v2_}),
                        ({k_: v1_, k2_: v2_}, {k_: v1_ + sep + k2_ + sep + v2_}),
                        ({k_: v1_, k2_: v2_}, {k_: v1_ + '";"' + k2_ + '"="' + v2_}),
                        ({k_: v1_, k2_: v2_}, {k_ + "=" + v1_ + ";" + k2_: v2_}),
                        ({k_: v1_, k2_: v2_}, {k2_: v1_, k_: v2_}),
                        # collisions of the three encodings that quote only keys, only values, or nothing
                        ({k_: v1_, k2_: v2_}, {k_: v1_ + ";" + json.dumps(k2_, ensure_ascii=False) + "=" + v2_}),
                        ({k_: v1_, k2_: v2_}, {k_ + "=" + json.dumps(v1_, ensure_ascii=False) + ";" + k2_: v2_}),
                        ({k_: v1_, k2_: v2_}, {k_: v1_ + ";" + k2_ + "=" + v2_}),
                    ]
                    a_, b_ = rng.choice(cand)
                    bump("probe.identity_pairs")
                    if (compute_args_id(a_) == compute_args_id(b_)) != (a_ == b_):
                        viol.append({"signature": f"C15/{stack}/identity-encoding", "message": f"compute_args_id equality {compute_args_id(a_) == compute_args_id(b_)} but dict equality {a_ == b_}: {a_!r} vs {b_!r}"})
                d1 = {rng.choice(["a", "b", 'k"=', "x;y", "="]): rng.choice(["1", '"1"', "1;", "=", "a=b;c"]) for _ in range(rng.randint(0, 3))}
                d2 = dict(reversed(list(d1.items()))) if rng.random() < 0.4 else {rng.choice(["a", "b", 'k"=', "x;y", "="]): rng.choice(["1", '"1"', "1;", "=", "a=b;c"]) for _ in range(rng.randint(0, 3))}
                bump("probe.identity_pairs")
                if (compute_args_id(d1) == compute_args_id(d2)) != (d1 == d2):
                    viol.append({"signature": f"C15/{stack}/identity-encoding", "message": f"compute_args_id equality {compute_args_id(d1) == compute_args_id(d2)} but dict equality {d1 == d2}: {d1!r} vs {d2!r}"})
                trace.append(("content",))
        tr = repr(trace).encode()
        return {
            "violations": viol,
            "stats": stats,
            "steps": len(trace),
            "sim_time": round(sim.now - sim.epoch, 4),
            "sched_hash": hashlib.sha256(tr + desc_conf.encode()).hexdigest()[:16],
            "nontrivial": ext_seen and lru_hit and store_read,
            "sample": {"config": desc_conf, "ops": [list(map(str, t)) for t in trace[:14]], "len": len(trace)},
            "digest": hashlib.sha256(tr + repr(sorted(v["signature"] for v in viol)).encode()).hexdigest(),
        }
    finally:
        core.deactivate()
        import gc

        client = worker = None  # type: ignore[assignment]
        gc.collect()
        if db:
            apps_mod.remove_db(db)


_ = SeqEnv  # engine A environment (the two-party variant is built inline above)
