"""C14 -- process-based runners keep their worker pool at capacity when workers die.

Fault enumeration over worker-death sequences.  The multi-thread,
persistent-process and process runners are driven through their *real*
`on_start`, `_report_child_runner_heartbeats` and `runner_loop_iteration` code
(the body of `BaseRunner.run`) on the SQLite stack in virtual time; the
operating-system process objects (`multiprocessing.Process`, `Manager`,
`cpu_count`) are replaced by controllable stand-ins whose liveness is decided
by the fault plan: any subset of the pool dies between any two loop iterations,
repeatedly, including all workers at once.

Oracle, k = 3 iterations after the last death: the number of live tracked
workers is the configured number (persistent-process runner), `max_processes`
(multi-thread runner: always with enforce on; with enforce off when the queue
holds at least that much work), free slots are restored and new queued work is
claimed (process runner); dead workers are forgotten; every runner id passed to
`register_runner_heartbeats` belongs to a worker that is alive at that moment.

Second stratum (threaded engine): the PersistentProcessRunner again, this time
with its workers as simulated *processes* running the real
`persistent_process_main` on the SQLite stack (own Pynenc object, own
connections); workers are SIGKILLed in seeded bursts while work is queued.  Same
oracle three complete parent loop iterations after the last death.
"""

from __future__ import annotations

import hashlib
from typing import Any

from simkit import apps as apps_mod
from simkit import core
from simkit.core import SimEvent
from workloads import simtasks

PROPERTY = "C14"
LEVEL = "fault_enumeration"
ENGINES = ["A", "B"]
TECHNIQUE = "deterministic simulation with fault injection: real start / loop-iteration / heartbeat code of the three process runners over stand-in process objects; seeded worker-death sequences between loop iterations, and (persistent-process runner) seeded SIGKILLs of simulated worker processes running the real worker main; capacity and heartbeat oracle"
LEVEL_TEXT = (
    "Each run picks a runner class and pool configuration, starts it through the real on_start, and alternates the real loop body with "
    "seeded death bursts (subsets of the live pool, all at once, repeated) for 4-10 rounds; three quiet iterations after the last burst the "
    "pool must be back at capacity, no dead worker may still be tracked, and no heartbeat may ever have been reported for a dead worker. "
    "Death sequences and configurations are sampled; the loop code is the runners' own."
)
LEVEL_NOTE = "Trusted: the stand-ins for multiprocessing.Process / Manager / cpu_count (stratum deaths: liveness = fault plan, the worker main is not executed; stratum ppr-live-workers: a worker is a simulated process executing the real worker main), the capacity rule per runner as documented in docs/reference/runners.md and config_runner.py. Pickling of apps / tasks across spawn is not exercised."
MINIMIZE = None
RULE = (
    "one run = runner in {MultiThreadRunner, PersistentProcessRunner, ProcessRunner} x pool size 1-4 x enforce on/off x queue empty/loaded (ProcessRunner: also a re-dispatch of a recovered invocation to a second worker while the first lives) x "
    "4-10 rounds of (death burst, 1-2 iterations); non-trivial = at least one burst killed a worker; distinct = hash of configuration + death sequence."
)
ASSUMPTIONS = [
    "'within the next loop iterations' = 3 iterations after the last death",
    "multi-thread runner with enforce_max_processes off scales by queue length: capacity is only required while the queue holds at least max_processes invocations",
]
REAL = ["MultiThreadRunner / PersistentProcessRunner / ProcessRunner: on_start, runner_loop_iteration, get_active_child_runner_ids", "BaseRunner._report_child_runner_heartbeats", "SQLite orchestrator (heartbeats, claims)", "broker"]
STUBBED = ["multiprocessing.Process / Manager / cpu_count (stand-ins)", "worker main functions (not executed in stratum deaths; real persistent_process_main in stratum ppr-live-workers)", "clock"]
PROBES = ["death_burst", "all_workers_died", "respawned", "heartbeat_reports", "work_not_finished_after_deaths", "same_invocation_in_two_workers"]


class FakeProcess:
    counter = 0
    registry: list["FakeProcess"] = []

    def __init__(self, group: Any = None, target: Any = None, name: Any = None, args: Any = (), kwargs: Any = None, *, daemon: Any = None) -> None:
        self.target = target
        self.args = args
        self.kwargs = kwargs or {}
        self.daemon = daemon
        self.pid: int | None = None
        self._alive = False
        self.exitcode: int | None = None
        self.runner_id = self.kwargs.get("child_runner_id")

    def start(self) -> None:
        FakeProcess.counter += 1
        self.pid = 40000 + FakeProcess.counter
        self._alive = True
        FakeProcess.registry.append(self)

    def is_alive(self) -> bool:
        return self._alive

    def die(self) -> None:
        self._alive = False
        self.exitcode = -9

    def terminate(self) -> None:
        self.die()

    def kill(self) -> None:
        self.die()

    def join(self, timeout: Any = None) -> None:
        return None


class FakeManager:
    def dict(self, *a: Any, **k: Any) -> dict:
        return dict(*a, **k)

    def Event(self) -> Any:  # noqa: N802
        return SimEvent()

    def shutdown(self) -> None:
        return None


def plan(tier: str) -> list[dict]:
    q = tier == "quick"
    return [
        {"stratum": "deaths", "runs": 192 if q else 9000, "params": {}, "chunk": 12 if q else 100},
        {"stratum": "ppr-live-workers", "runs": 64 if q else 3000, "params": {"mode": "live"}, "chunk": 4 if q else 25},
    ]


def warmup() -> None:
    run(0, {})


def _run_live(seed: int, replay: dict | None) -> dict:
    """Engine B: a PersistentProcessRunner whose workers are simulated processes running the real
    persistent_process_main on the SQLite stack; seeded SIGKILLs of workers (one, several, all at once,
    repeatedly) while work is queued; afterwards the pool is back at capacity, the dead are forgotten,
    heartbeats were only ever reported for live workers, and all queued work completes."""
    import random

    from workloads import gen
    from workloads.deploy import Deployment

    rng = random.Random(f"{seed}:c14live")
    n_workers = rng.choice([1, 2, 2, 3])
    policy = rng.choice(["rand", "rand", "rr"])
    parg = {"rand": rng.choice([0.1, 0.3]), "rr": rng.choice([1, 3])}[policy]
    n_bursts = rng.randint(1, 3)
    bursts = [(rng.choice([0.05, 0.2, 0.5, 1.0]), rng.choice(["one", "one", "some", "all"])) for _ in range(n_bursts)]
    names = gen.Names()
    roots = [gen.gen_prog(rng, names, depth=0, p_fail=0.0, work=(0.05, 0.2, 0.5)) for _ in range(rng.randint(3, 7))]
    schedule = replay.get("schedule") if replay else None
    viol: list[dict] = []
    conf = {"runner_loop_sleep_time_sec": 0.1, "max_pending_seconds": 2.0, "runner_considered_dead_after_minutes": 0.05, "atomic_service_interval_minutes": 0.1, "atomic_service_spread_margin_minutes": 0.01, "atomic_service_check_interval_minutes": 0.02, "recover_pending_invocations_cron": "* * * * *", "recover_running_invocations_cron": "* * * * *"}
    with Deployment(seed, "sqlite", 1, clients=["c"], services=True, ppr={"r1": n_workers}, policy=policy, policy_arg=parg, schedule=schedule, max_steps=600_000, max_time=260.0, delta=2e-3, conf=conf) as d:
        sim = d.sim
        d.register(simtasks.prog, max_retries=2)
        parent = d.runners["r1"]
        hb_bad: list[str] = []
        killed: list[str] = []
        papp = d.app("r1")
        orig_hb = papp.orchestrator.register_runner_heartbeats

        def hb(runner_ids: list[str], can_run_atomic_service: bool = False) -> None:
            sim.bump("probe.heartbeat_reports")
            dead_ids = {p.kwargs.get("child_runner_id") for p in d.worker_procs.values() if not p.is_alive()}
            for rid in runner_ids:
                if rid in dead_ids:
                    hb_bad.append(rid)
            return orig_hb(runner_ids, can_run_atomic_service)

        papp.orchestrator.register_runner_heartbeats = hb
        out: dict[str, Any] = {}
        iters = {"n": 0}
        orig_iter = parent.runner_loop_iteration

        def counted_iteration() -> None:
            orig_iter()
            iters["n"] += 1

        parent.runner_loop_iteration = counted_iteration  # type: ignore[method-assign]

        def client() -> None:
            t = d.task("c", "prog")
            ids = [str(t(r).invocation_id) for r in roots]
            out["ids"] = ids
            for gap, how in bursts:
                sim.sleep(gap)
                alive = [p for p in d.worker_procs.values() if p.is_alive()]
                if not alive:
                    continue
                k = 1 if how == "one" else (len(alive) if how == "all" else rng.randint(1, len(alive)))
                victims = rng.sample(alive, k)
                for p in victims:
                    killed.append(p.name)
                    sim.crash_actor(p.actor, "SIGKILL (worker death burst)")
                sim.bump("probe.death_burst")
                if k == len(alive):
                    sim.bump("probe.all_workers_died")
            # quiet period: three complete iterations of the parent's loop after the last death (counted, not timed:
            # an iteration that also runs the global services can take more than a virtual second), then the work must finish
            target = iters["n"] + 4  # the iteration under way at the last death may have looked at the pool before it
            t_lim = sim.now + 60.0
            while iters["n"] < target and sim.now < t_lim:
                sim.sleep(0.1)
            out["iterations_waited"] = iters["n"] >= target
            out["alive_after_quiet"] = sum(1 for p in parent.child_runner_ids.values() if p.is_alive())
            out["dead_tracked"] = sum(1 for p in parent.child_runner_ids.values() if not p.is_alive())
            out["final"] = d.wait_final("c", ids, timeout=90.0, poll=0.5)
            out["status"] = [d.status("c", i) for i in ids]
            d.stop_runners()

        d.run({"c": client})
        w = d.w
        common = w.result_common()
        st = common["stats"]
        if len(d.worker_procs) > n_workers:
            st["probe.respawned"] = len(d.worker_procs) - n_workers
        desc = f"PPR workers={n_workers} bursts={bursts} killed={killed}"
        if "final" not in out or d.pool_exhausted or not out.get("iterations_waited"):
            common["inconclusive"] = True
        else:
            if out["dead_tracked"]:
                viol.append({"signature": "C14/PPR-live/dead-workers-still-tracked", "message": f"{out['dead_tracked']} dead worker(s) still tracked three parent loop iterations after the last death; {desc}"})
            if out["alive_after_quiet"] != n_workers:
                viol.append({"signature": "C14/PPR-live/pool-below-capacity", "message": f"{out['alive_after_quiet']} live workers three parent loop iterations after the last death, configured {n_workers}; {desc}"})
            if hb_bad:
                viol.append({"signature": "C14/PPR-live/heartbeat-for-dead-worker", "message": f"heartbeats were reported for dead workers {sorted(set(hb_bad))[:3]}; {desc}"})
            if not out["final"]:
                # stranded work after a worker death is C03's subject (known crash windows); here only the pool matters
                st["probe.work_not_finished_after_deaths"] = 1
        common.update(
            {
                "violations": viol,
                "nontrivial": bool(killed),
                "sample": {"runner": "PPR-live", "size": n_workers, "bursts": [list(b) for b in bursts], "killed": killed, "alive_after_quiet": out.get("alive_after_quiet"), "statuses": out.get("status"), "virtual_seconds": round(sim.now - sim.epoch, 1)},
            }
        )
        return common


def run(seed: int, params: dict, replay: dict | None = None) -> dict:
    if params.get("mode") == "live":
        return _run_live(seed, replay)
    import pynenc.runner.multi_thread_runner as mtr_mod
    import pynenc.runner.persistent_process_runner as ppr_mod
    import pynenc.runner.process_runner as pr_mod

    viol: list[dict] = []
    stats: dict[str, int] = {}
    trace: list = []

    def bump(k: str, n: int = 1) -> None:
        stats[k] = stats.get(k, 0) + n

    sim = core.Sim(seed, threaded=False, delta=0.0)
    core.activate(sim)
    apps_mod.reset_thread_context()
    db = apps_mod.fresh_db()
    saved = []
    FakeProcess.counter = 0
    FakeProcess.registry = []
    app = None
    try:
        rng = sim.rng_work
        kind = rng.choice(["MTR", "MTR", "PPR", "PR"])
        size = rng.randint(1, 4)
        enforce = rng.random() < 0.5
        loaded = rng.random() < 0.6
        for mod in (mtr_mod, ppr_mod, pr_mod):
            for name, repl in (("Process", FakeProcess), ("Manager", FakeManager), ("cpu_count", lambda: size)):
                if hasattr(mod, name):
                    saved.append((mod, name, getattr(mod, name)))
                    setattr(mod, name, repl)
            if hasattr(mod, "warn_missing_main_guard"):
                saved.append((mod, "warn_missing_main_guard", mod.warn_missing_main_guard))
                mod.warn_missing_main_guard = lambda: None
        conf: dict[str, Any] = {"runner_loop_sleep_time_sec": 0.01}
        if kind == "MTR":
            conf.update({"runner_cls": "MultiThreadRunner", "min_processes": rng.randint(1, size), "max_processes": size, "enforce_max_processes": enforce, "idle_timeout_process_sec": 1000})
        elif kind == "PPR":
            conf.update({"runner_cls": "PersistentProcessRunner", "num_processes": size, "min_parallel_slots": 1})
        else:
            conf.update({"runner_cls": "ProcessRunner", "min_parallel_slots": 1})
        app = apps_mod.make_app("sqlite", db_path=db, **conf)
        apps_mod.instantiate_all(app)
        t = apps_mod.register(app, simtasks.add)
        runner = app.runner
        if kind == "PPR":
            # os.cpu_count() is read through the module's os: the configured number is what counts
            pass
        hb_bad: list[str] = []
        orig_hb = app.orchestrator.register_runner_heartbeats

        def hb(runner_ids: list[str], can_run_atomic_service: bool = False) -> None:
            bump("probe.heartbeat_reports")
            alive_ids = set()
            for p in FakeProcess.registry:
                if p.is_alive() and p.runner_id:
                    alive_ids.add(p.runner_id)
            if kind == "PR":
                alive_ids = {rid for rid, info in runner.child_runner_ids.items() if info.process.is_alive()}
            for rid in runner_ids:
                if rid != runner.runner_id and rid not in alive_ids and not can_run_atomic_service:
                    # the initial registration of a new child (before start) is not a liveness report
                    if rid in [p.runner_id for p in FakeProcess.registry] or kind == "PR" and rid in known_dead:
                        hb_bad.append(rid)
            return orig_hb(runner_ids, can_run_atomic_service)

        known_dead: set[str] = set()
        app.orchestrator.register_runner_heartbeats = hb
        n_jobs = 0
        # ProcessRunner only: a short queue, so that an invocation recovered from a slow (still alive) worker is handed to a
        # second worker of the same runner while the first one lives (pending recovery does exactly this to a worker that
        # has not reached RUNNING within max_pending_seconds)
        redispatch = kind == "PR" and loaded and size >= 2 and rng.random() < 0.5
        if loaded:
            for i in range(size if redispatch else size * 3 + 2):
                t(i, 0)
                n_jobs += 1
        runner._last_atomic_service_check_time = float("inf")
        runner.on_start()

        def iteration() -> None:
            runner._report_child_runner_heartbeats()
            runner.runner_loop_iteration()
            sim.advance(0.05)

        def live_tracked() -> tuple[int, int]:
            procs = [(rid, (info.process if kind == "PR" else info)) for rid, info in runner.child_runner_ids.items()]
            return sum(1 for _, p in procs if p.is_alive()), sum(1 for _, p in procs if not p.is_alive())

        iteration()
        killed_any = False
        if redispatch:
            from pynenc.invocation.status import InvocationStatus
            from pynenc.runner.runner_context import RunnerContext

            held = [(rid, info) for rid, info in runner.child_runner_ids.items() if info.process.is_alive()]
            if len(held) >= 2:
                (rid1, info1), (rid2, info2) = rng.sample(held, 2)
                rec_ctx = RunnerContext(runner_cls="SimRunner", runner_id="recovery")
                try:
                    app.orchestrator.set_invocation_status(info1.invocation_id, InvocationStatus.PENDING_RECOVERY, rec_ctx)
                    app.orchestrator.reroute_invocations({info1.invocation_id}, rec_ctx)
                    info2.process.die()  # frees one slot: the next iteration hands the recovered invocation to a new worker
                    known_dead.add(rid2)
                    killed_any = True
                    iteration()
                    bump("probe.same_invocation_in_two_workers", int(sum(1 for i in runner.child_runner_ids.values() if i.invocation_id == info1.invocation_id) >= 2))
                    trace.append(("redispatch", 1))
                    # keep the queue loaded for the final capacity check
                    for i in range(size + 2):
                        t(200 + i, 0)
                        n_jobs += 1
                except Exception as e:  # noqa: BLE001  (the held invocation had moved on: nothing to recover)
                    trace.append(("redispatch-skipped", type(e).__name__))
        for rnd in range(rng.randint(4, 10)):
            procs = [(rid, (info.process if kind == "PR" else info)) for rid, info in runner.child_runner_ids.items()]
            alive = [(rid, p) for rid, p in procs if p.is_alive()]
            r = rng.random()
            if alive and r < 0.75:
                k = len(alive) if rng.random() < 0.3 else rng.randint(1, len(alive))
                victims = rng.sample(alive, k)
                for rid, p in victims:
                    p.die()
                    known_dead.add(rid)
                killed_any = True
                bump("probe.death_burst")
                if k == len(alive):
                    bump("probe.all_workers_died")
                trace.append(("kill", k, len(alive)))
            if loaded and kind == "PR" and rng.random() < 0.5:
                t(100 + rnd, 0)
                n_jobs += 1
            for _ in range(rng.randint(1, 2)):
                before = len(FakeProcess.registry)
                iteration()
                if len(FakeProcess.registry) > before:
                    bump("probe.respawned", len(FakeProcess.registry) - before)
                trace.append(("iter",))
        for _ in range(3):
            iteration()
        live, dead = live_tracked()
        desc = f"{kind} size={size} enforce={enforce} queue={'loaded' if loaded else 'empty'} history={trace[-10:]}"
        if dead:
            viol.append({"signature": f"C14/{kind}/dead-workers-still-tracked", "message": f"{dead} dead worker(s) are still tracked 3 iterations after the last death (live {live}); {desc}"})
        if kind == "PPR" and live != runner.num_processes:
            viol.append({"signature": "C14/PPR/pool-below-capacity", "message": f"{live} live workers, configured {runner.num_processes}; {desc}"})
        if kind == "MTR":
            queued = app.broker.count_invocations()
            if enforce and live != size:
                viol.append({"signature": "C14/MTR/pool-below-capacity/enforce=True", "message": f"{live} live workers, max_processes {size} with enforce_max_processes on; {desc}"})
            if not enforce and queued >= size and live < size:
                viol.append({"signature": "C14/MTR/pool-below-capacity/enforce=False", "message": f"{live} live workers although {queued} invocations are queued and max_processes is {size}; {desc}"})
        if kind == "PR":
            queued = app.broker.count_invocations()
            free = runner.max_parallel_slots - live
            if queued > 0 and free > 0:
                viol.append({"signature": "C14/PR/slots-not-refilled", "message": f"{free} free slot(s) and {queued} queued invocation(s) after 3 quiet iterations (live {live}, max {runner.max_parallel_slots}); {desc}"})
        if hb_bad:
            viol.append({"signature": f"C14/{kind}/heartbeat-for-dead-worker", "message": f"heartbeats were reported for dead workers {sorted(set(hb_bad))[:3]}; {desc}"})
        tr = repr((kind, size, enforce, loaded, trace)).encode()
        return {
            "violations": viol,
            "stats": stats,
            "steps": len(trace),
            "sim_time": round(sim.now - sim.epoch, 3),
            "sched_hash": hashlib.sha256(tr).hexdigest()[:16],
            "nontrivial": killed_any,
            "sample": {"runner": kind, "size": size, "enforce": enforce, "queue": "loaded" if loaded else "empty", "history": [list(map(str, x)) for x in trace[:14]], "live_at_end": live},
            "digest": hashlib.sha256(tr + repr(sorted(v["signature"] for v in viol)).encode()).hexdigest(),
        }
    finally:
        for mod, name, val in reversed(saved):
            setattr(mod, name, val)
        core.deactivate()
        app = None
        import gc

        gc.collect()
        apps_mod.remove_db(db)
